"""C16  the two loops of _encode_circuit_body on an ARBITRARY well-formed circuit of format-supported gates, composed from the
contracts proved elsewhere:  _enumerate_gates (c16_enum.EnumerateGates: E1-E6),  _encode_gate (c16_gate.EncodeGate: one RECORD
per non-input gate),  write_number (C16: every width).

The bit stream is seen as a sequence of ITEMS: a gate record (the 1 + arity numbers EncodeGate proves to be written for that gate)
or a single number.  Record framing - the flat number stream of the encoder and that of the decoder align because every record's
length is determined by its first number, on which the two per-gate contracts agree - is the one step taken as a rule here
(DESIGN §9); everything else is an obligation.

  B1  after the call the stream is the old stream followed by the records of the non-input gates IN IDENTIFIER ORDER
      (record j belongs to the gate with identifier n_inputs + j), followed by the identifiers of the outputs in output order;
  B2  nothing is written for INPUT gates; the number of records is the number of keys minus the number of inputs;
  B3  the circuit is untouched; no exception for circuits whose gates the format supports.

Decode side (second half of this file):  _decode_circuit_body(reader, word_size, n_inputs, n_outputs, n_intermediates, circuit) on an
EMPTY circuit and an arbitrary item stream that has n_intermediates records of supported types followed by n_outputs numbers
(three loop invariants; _decode_gate through its contract (c16_gate.DecodeGate), the gate being added by the REAL add_gate on the
abstract heap; mark_as_output real):
  D1  the circuit holds exactly gate_0 .. gate_{n_inputs + n_intermediates - 1}: the first n_inputs are inputs (in that order in the
      input list), gate_{n_inputs + j} has the type of record j and the gates named by its identifiers as operands (in order, or
      swapped for a symmetric type - what DecodeGate guarantees), all of them decoded earlier;
  D2  the outputs are gate_<o_1>, .., gate_<o_q> in reading order; D3 the cursor ends behind the last number; D4 the result is WF;
  raises only CircuitEncodingError (an identifier not decoded yet) or CircuitValidationError (an output identifier out of range).

Composition (circuit_round_trip; obligations over the contracts): with the counts the encoder writes, decoding what
_encode_circuit_body wrote yields exactly the image of the circuit under rho(l) = gate_<identifier of l>: every gate, nothing else,
injective renaming, types / arities kept, operands kept in order (swapped at most for symmetric types), inputs and outputs in order.
Not covered: header and the three counts (_encode_header / _encode_circuit_parameters, `gates_number([INPUT])` = number of keys -
number of inputs), word-size adequacy, the flat bit stream behind the items (record framing, see above)."""
import z3

from ..pyvc.values import Sym, LabelSort, GT, Obj, Unsupported, Native, PyRaise, GTypeSort
from ..pyvc.interp import Model, _simp
from ..pyvc import circuit_model as CM
from .C02 import CircuitContract, CIRC
from .c16_enum import NumMap, KeySeq

ENC = 'cirbo/circuits_db/circuits_encoding.py'
KEY = ENC + '::_encode_circuit_body'
I = z3.IntSort()
B = z3.BoolSort()
_K = [0]
SUPPORTED = {'NOT': 1, 'IFF': 1, 'AND': 2, 'OR': 2, 'NOR': 2, 'NAND': 2, 'XOR': 2, 'NXOR': 2, 'GEQ': 2, 'GT': 2, 'LEQ': 2, 'LT': 2,
             'ALWAYS_TRUE': 2, 'ALWAYS_FALSE': 2}


class ItemLog(Model):
    """bit_writer as a sequence of items: n items; item i is a record of gate rec(i) (is_rec) or the number num(i) on width wid(i)"""

    def __init__(self, n, is_rec, rec, num, wid):
        self.n, self.is_rec, self.rec, self.num, self.wid = n, is_rec, rec, num, wid

    def append_record(self, label_term):
        n0, ir, rc = self.n, self.is_rec, self.rec
        self.is_rec = lambda i: z3.If(i == n0, True, ir(i))
        self.rec = lambda i: z3.If(i == n0, label_term, rc(i))
        self.n = n0 + 1

    def m_getattr(self, it, name):
        if name == 'write_number':
            def write_number(number, bit_length):
                n0, ir, nm, wd = self.n, self.is_rec, self.num, self.wid
                v, w = it.int_term(number), it.int_term(bit_length)
                self.is_rec = lambda i: z3.If(i == n0, False, ir(i))
                self.num = lambda i: z3.If(i == n0, v, nm(i))
                self.wid = lambda i: z3.If(i == n0, w, wd(i))
                self.n = n0 + 1
            return Native('ItemLog.write_number', write_number)
        raise Unsupported('bit_writer.' + name + ' in _encode_circuit_body')


def fresh_log(ctx):
    _K[0] += 1
    k = _K[0]
    ir = z3.Function(f'item_is_rec!{k}', I, B)
    rc = z3.Function(f'item_gate!{k}', I, LabelSort)
    nm = z3.Function(f'item_num!{k}', I, I)
    wd = z3.Function(f'item_width!{k}', I, I)
    n = ctx.fresh(I, 'nitems')
    return ItemLog(n, lambda i: ir(i), lambda i: rc(i), lambda i: nm(i), lambda i: wd(i))


class KeysLoop:
    """for label in gate_identifiers.keys(): _encode_gate(bit_writer, circuit.get_gate(label), gate_identifiers, word_size)"""

    def __init__(self, c):
        self.c = c

    def applies(self, it, env, iterable):
        return isinstance(iterable, KeySeq)

    def havoc(self, it, env):
        env['bit_writer'] = fresh_log(it.ctx)

    def _f(self, it, env, k, i):
        c = self.c
        log = env['bit_writer']
        nin = c.S0.in_n
        L = z3.If(k <= nin, 0, k - nin)
        return [('length', log.n == c.n0 + L),
                ('old-items-kept', z3.Implies(z3.And(i >= 0, i < c.n0), z3.And(log.is_rec(i) == c.log0.is_rec(i), log.rec(i) == c.log0.rec(i), log.num(i) == c.log0.num(i), log.wid(i) == c.log0.wid(i)))),
                # (stated over the absolute position i of the item, so that instances are found by matching rec(i) / is_rec(i) alone)
                ('record-j-is-the-gate-with-identifier-n_inputs+j', z3.Implies(z3.And(i >= c.n0, i < c.n0 + L), z3.And(log.is_rec(i), log.rec(i) == c.ids.key_at(nin + i - c.n0))))]

    def inv(self, it, env, k):
        return self._f(it, env, k, it.ctx.fresh(I, 'ib1'))

    def inv_assume(self, it, env, k):
        i = z3.Int('i!b1')
        return [(nm, z3.ForAll([i], f) if nm != 'length' else f) for nm, f in self._f(it, env, k, i)]


class OutputsLoop:
    """for label in circuit.outputs: bit_writer.write_number(gate_identifiers[label], word_size)"""

    def __init__(self, c):
        self.c = c
        self.n1 = None

    def applies(self, it, env, iterable):
        if not isinstance(iterable, CM.LabelList):
            return False
        if self.n1 is None:
            log = env['bit_writer']
            self.n1, self.log1 = log.n, ItemLog(log.n, log.is_rec, log.rec, log.num, log.wid)
        return True

    def havoc(self, it, env):
        env['bit_writer'] = fresh_log(it.ctx)

    def _f(self, it, env, k, i):
        c, l1 = self.c, self.log1
        c.cur_st['env'] = env
        log = env['bit_writer']
        return [('length', log.n == self.n1 + k),
                ('earlier-items-kept', z3.Implies(z3.And(i >= 0, i < self.n1), z3.And(log.is_rec(i) == l1.is_rec(i), log.rec(i) == l1.rec(i), log.num(i) == l1.num(i), log.wid(i) == l1.wid(i)))),
                ('output-identifiers-in-order', z3.Implies(z3.And(i >= self.n1, i < self.n1 + k), z3.And(z3.Not(log.is_rec(i)), log.num(i) == c.ids.val(c.S0.out_elem(i - self.n1)), log.wid(i) == c.w)))]

    def inv(self, it, env, k):
        return self._f(it, env, k, it.ctx.fresh(I, 'ib2'))

    def inv_assume(self, it, env, k):
        i = z3.Int('i!b2')
        return [(nm, z3.ForAll([i], f) if nm != 'length' else f) for nm, f in self._f(it, env, k, i)]


class EncodeBody(CircuitContract):
    relpath, qualname, name = ENC, '_encode_circuit_body', '_encode_circuit_body/any-circuit'

    def setup(self, it, ctx):
        c, h = self.circuit(it, ctx)
        S0 = h.S
        self.S0 = S0
        _K[0] += 1
        k = _K[0]
        l, l2 = z3.Consts('l!eb l2!eb', LabelSort)
        i, j = z3.Ints('i!eb j!eb')
        w = z3.Int('word_size')
        ctx.assume(w >= 0)
        self.w = w
        # precondition: only gates the format supports (type of the code table with the arity the decoder reads); inputs carry no operands
        supp = z3.Or([z3.And(S0.typ(l) == GT[t], S0.nops(l) == a) for t, a in SUPPORTED.items()])
        ctx.assume(z3.ForAll([l], z3.Implies(z3.And(S0.dom(l), S0.typ(l) != GT['INPUT']), supp)))
        ctx.assume(z3.ForAll([l], z3.Implies(z3.And(S0.dom(l), S0.typ(l) == GT['INPUT']), S0.nops(l) == 0)))
        # representation facts of the input list
        pf = z3.Function(f'inpos!eb{k}', LabelSort, I)
        ctx.assume(z3.ForAll([l], z3.Implies(S0.in_cnt(l) > 0, z3.And(pf(l) >= 0, pf(l) < S0.in_n, S0.in_elem(pf(l)) == l))))
        # ---- contract of _enumerate_gates (c16_enum.EnumerateGates, E1-E6), rule R4
        d = z3.Function(f'ids_dom!eb{k}', LabelSort, B)
        v = z3.Function(f'ids_val!eb{k}', LabelSort, I)
        ka = z3.Function(f'ids_key!eb{k}', I, LabelSort)
        N = z3.Int(f'ids_n!eb{k}')
        ids = NumMap(lambda q: d(q), lambda q: v(q), N, lambda q: ka(q))
        self.ids = ids
        isin = lambda q: S0.typ(q) == GT['INPUT']       # noqa: E731

        def enumerate_gates(it_, fv, args, kwargs):
            if getattr(args[0], 'holder', None) is not h:
                raise Unsupported('_enumerate_gates on another circuit')
            cx = it_.ctx
            cx.assume(N >= 0)
            cx.assume(z3.ForAll([l], d(l) == S0.dom(l)))                                                                              # E1
            cx.assume(z3.ForAll([i], z3.Implies(z3.And(i >= 0, i < S0.in_n), z3.And(d(S0.in_elem(i)), v(S0.in_elem(i)) == i))))    # E2
            cx.assume(z3.ForAll([l, l2], z3.Implies(z3.And(d(l), d(l2), v(l) == v(l2)), l == l2)))                                    # E3
            cx.assume(z3.ForAll([l, i], z3.Implies(z3.And(S0.dom(l), z3.Not(isin(l)), i >= 0, i < S0.nops(l)),
                                                   z3.And(d(S0.op(l, i)), v(S0.op(l, i)) < v(l)))))                                  # E4
            cx.assume(z3.ForAll([l], z3.Implies(z3.And(S0.dom(l), z3.Not(isin(l))), v(l) >= S0.in_n)))                                # E4
            cx.assume(z3.ForAll([i], z3.Implies(z3.And(i >= 0, i < N), z3.And(d(ka(i)), v(ka(i)) == i))))                             # E6
            cx.assume(z3.ForAll([l], z3.Implies(d(l), z3.And(v(l) >= 0, v(l) < N))))                                                   # E7
            cx.assume(N >= S0.in_n)
            # ghost lemmas (checked for arbitrary instances on this path, then used universally): which keys are inputs
            from .c19_rename import lemma
            g_, k_ = z3.Const('g!lk', LabelSort), z3.Int('k!lk')
            lemma(cx, 'input-gates-have-identifiers-below-n_inputs', [g_], z3.Implies(z3.And(S0.dom(g_), isin(g_)), z3.And(v(g_) >= 0, v(g_) < S0.in_n, S0.in_elem(v(g_)) == g_)))
            lemma(cx, 'key-k-is-an-input-iff-k-below-n_inputs', [k_], z3.Implies(z3.And(k_ >= 0, k_ < N), z3.And(S0.dom(ka(k_)), isin(ka(k_)) == (k_ < S0.in_n))))
            return ids
        it.contracts[ENC + '::_enumerate_gates'] = enumerate_gates

        # ---- contract of _encode_gate (c16_gate.EncodeGate), rule R4: one record item per non-input gate, nothing for inputs
        def encode_gate(it_, fv, args, kwargs):
            wr, g, gi, ws = args[:4]
            if not isinstance(wr, ItemLog):
                raise Unsupported('_encode_gate on another writer')
            if gi is not ids:
                raise Unsupported('_encode_gate with another identifier map')
            it_.ctx.check('encode_gate/pre/word-size-forwarded', it_.int_term(ws) == w)
            lt = it_.label_term(it_.getattr(g, 'label'))
            it_.ctx.check('encode_gate/pre/gate-of-the-circuit', S0.dom(lt))
            if it_.ctx.choose(_simp(S0.typ(lt) == GT['INPUT'])):
                from . import c16_gate
                if 'raises' in c16_gate.INPUT_OUTCOME and 'returns' not in c16_gate.INPUT_OUTCOME:
                    m__ = it_.load_module('cirbo.circuits_db.circuits_encoding')
                    raise PyRaise(it_.instantiate(m__.env['CircuitEncodingError'], ['input gate'], {}))
                return None
            wr.append_record(lt)
            return None
        it.contracts[ENC + '::_encode_gate'] = encode_gate
        log0 = fresh_log(ctx)
        ctx.assume(log0.n >= 0)
        self.log0, self.n0 = ItemLog(log0.n, log0.is_rec, log0.rec, log0.num, log0.wid), log0.n
        it.loop_specs[(KEY, 1)] = KeysLoop(self)
        self.loop2 = OutputsLoop(self)
        it.loop_specs[(KEY, 2)] = self.loop2
        st = {'h': h, 'S0': S0, 'ids': ids, 'N': N, 'log0': self.log0, 'n0': self.n0, 'w': w}
        self.cur_st = st               # the loop specifications of THIS path record the function's environment here
        return [log0, Sym(w), c], {}, st

    def post(self, it, ctx, result, st):
        S0, ids, N, log0, n0, w = st['S0'], st['ids'], st['N'], st['log0'], st['n0'], st['w']
        # the writer object is the first argument, mutated in place or re-bound by the loop specifications: take the final one
        env = st.get('env')
        if env is None or not isinstance(env.get('bit_writer'), ItemLog):
            yield ('B1/writer-is-the-item-log', z3.BoolVal(False))
            return
        log = env['bit_writer']
        i = ctx.fresh(I, 'ipb')
        nrec = N - S0.in_n
        yield ('B1/length', log.n == n0 + nrec + S0.out_n)
        yield ('B1/old-stream-kept', z3.Implies(z3.And(i >= 0, i < n0), z3.And(log.is_rec(i) == log0.is_rec(i), log.rec(i) == log0.rec(i), log.num(i) == log0.num(i), log.wid(i) == log0.wid(i))))
        inrec = z3.And(i >= n0, i < n0 + nrec)
        k_ = S0.in_n + i - n0
        yield ('B1/records-in-identifier-order', z3.Implies(inrec, z3.And(log.is_rec(i), log.rec(i) == ids.key_at(k_))))
        yield ('B1/record-gates-have-those-identifiers-and-are-not-inputs', z3.Implies(inrec, z3.And(ids.val(ids.key_at(k_)) == k_, S0.typ(ids.key_at(k_)) != GT['INPUT'])))
        yield ('B1/output-identifiers-in-order', z3.Implies(z3.And(i >= n0 + nrec, i < n0 + nrec + S0.out_n),
                                                            z3.And(z3.Not(log.is_rec(i)), log.num(i) == ids.val(S0.out_elem(i - n0 - nrec)), log.wid(i) == w)))
        yield ('B3/circuit-untouched', z3.BoolVal(not [e for e in st['h'].events if e[0] in ('gate-write', 'gate-del', 'users-alias', 'users-del')]))

    def on_raise(self, it, ctx, exc, st):
        yield ('B3/no-raise', z3.BoolVal(False), {'raised': self.exc_name(exc), 'witness': 'raises-' + self.exc_name(exc)})


# =====================================================================================================================
#  decode side
# =====================================================================================================================
DKEY = ENC + '::_decode_circuit_body'
ORDER_FREE = ('AND', 'OR', 'NAND', 'NOR', 'XOR', 'NXOR', 'ALWAYS_TRUE', 'ALWAYS_FALSE')


class ItemReader(Model):
    """bit_reader as a cursor over an item sequence: item i is a record (rtyp(i), rid(i, 0), rid(i, 1)) or the number num(i)"""

    def __init__(self, pos, is_rec, rtyp, rid, num):
        self.pos, self.is_rec, self.rtyp, self.rid, self.num = pos, is_rec, rtyp, rid, num

    def m_getattr(self, it, name):
        if name == 'read_number':
            def read_number(bit_length):
                p = self.pos
                it.ctx.check('read_number/pre/next-item-is-a-number', z3.Not(self.is_rec(p)))
                self.pos = p + 1
                return Sym(self.num(p))
            return Native('ItemReader.read_number', read_number)
        raise Unsupported('bit_reader.' + name + ' in _decode_circuit_body')


class Table(Model):
    """gates: id -> Gate; entries 0..n-1, entry i labelled G(i)"""

    def __init__(self, n, G):
        self.n, self.G = n, G

    def m_len(self, it):
        return Sym(self.n)

    def m_setitem(self, it, k, v):
        it.ctx.check('table/new-entry-under-the-next-identifier', it.int_term(k) == self.n)
        it.ctx.check('table/new-entry-is-labelled-gate_<identifier>', it.label_term(it.getattr(v, 'label')) == self.G(self.n))
        self.n = self.n + 1

    def m_getattr(self, it, name):
        raise Unsupported('gates.' + name + ' outside _decode_gate')


def arity_of(t):
    return z3.If(z3.Or(t == GT['NOT'], t == GT['IFF']), 1, 2)


def supported(t):
    return z3.Or([t == GT[x] for x in SUPPORTED])


def order_free(t):
    return z3.Or([t == GT[x] for x in ORDER_FREE])


class DecodeState:
    """the clauses that describe the circuit under construction after `k` table entries (k <= nin: only inputs)"""

    def __init__(self, c):
        self.c = c

    def clauses(self, S2, k, l, i):
        c = self.c
        G, gidx, nin, p0 = c.G, c.gidx, c.nin, c.p0
        r = p0 + gidx(l) - nin                       # the record that created gate l
        isgate = z3.And(S2.dom(l), gidx(l) >= nin)
        t = c.rd0.rtyp(r)
        o0, o1 = G(c.rd0.rid(r, 0)), G(c.rd0.rid(r, 1))
        kin = z3.If(k < nin, k, nin)
        return [('domain-is-gate_0..gate_k-1', S2.dom(l) == z3.And(gidx(l) >= 0, gidx(l) < k, G(gidx(l)) == l)),
                ('first-entries-are-inputs', z3.Implies(z3.And(S2.dom(l), gidx(l) < nin), z3.And(S2.typ(l) == GT['INPUT'], S2.nops(l) == 0))),
                ('later-entries-are-the-decoded-records', z3.Implies(isgate, z3.And(
                    S2.typ(l) == t, S2.nops(l) == arity_of(t),
                    z3.Or(z3.And(S2.op(l, 0) == o0, z3.Implies(arity_of(t) == 2, S2.op(l, 1) == o1)),
                          z3.And(order_free(t), arity_of(t) == 2, S2.op(l, 0) == o1, S2.op(l, 1) == o0))))),
                ('operands-were-decoded-earlier', z3.Implies(z3.And(isgate, i >= 0, i < S2.nops(l)), z3.And(gidx(S2.op(l, i)) >= 0, gidx(S2.op(l, i)) < gidx(l)))),
                ('input-list-is-gate_0..', z3.And(S2.in_n == kin, z3.Implies(z3.And(i >= 0, i < kin), S2.in_elem(i) == G(i)),
                                                  S2.in_cnt(l) == z3.If(z3.And(S2.dom(l), gidx(l) < nin), 1, 0))),
                ('no-blocks', z3.Not(S2.b_member)),
                ('size', S2.size == k)]


class DecLoop:
    """common part of the three loops of _decode_circuit_body"""

    def __init__(self, c, which):
        self.c, self.which = c, which

    def applies(self, it, env, iterable):
        return True

    def havoc(self, it, env):
        c = self.c
        _K[0] += 1
        if self.which in (1, 2):
            S2 = CM.fresh_state(f'dec{_K[0]}')
            CM.assume_state(it.ctx, S2, wf=True, tag=f'dec{_K[0]}')
            c.h2.S = S2
            env['gates'] = Table(it.ctx.fresh(I, 'ntable'), c.G)
            rd = env['bit_reader']
            env['bit_reader'] = ItemReader(it.ctx.fresh(I, 'rpos'), rd.is_rec, rd.rtyp, rd.rid, rd.num)
        else:
            # the outputs loop touches the output list and the cursor only
            S2 = c.h2.S.copy()
            on = it.ctx.fresh(I, 'out_n')
            oe = z3.Function(f'out_elem!dec{_K[0]}', I, LabelSort)
            oc = z3.Function(f'out_cnt!dec{_K[0]}', LabelSort, I)
            S2.out_n, S2.out_elem, S2.out_cnt = on, (lambda i: oe(i)), (lambda l: oc(l))
            g, i = z3.Const('g!od', LabelSort), z3.Int('i!od')
            it.ctx.assume(z3.ForAll([g], z3.And(oc(g) >= 0, oc(g) <= on)))
            it.ctx.assume(on >= 0)
            it.ctx.assume(z3.ForAll([i], z3.Implies(z3.And(i >= 0, i < on), oc(oe(i)) >= 1)))
            c.h2.S = S2
            rd = env['bit_reader']
            env['bit_reader'] = ItemReader(it.ctx.fresh(I, 'rpos'), rd.is_rec, rd.rtyp, rd.rid, rd.num)

    def _f(self, it, env, k, l, i):
        c = self.c
        c.cur_st['env'] = env
        S2 = c.h2.S
        rd, tb = env['bit_reader'], env['gates']
        tn = tb.n if isinstance(tb, Table) else z3.IntVal(0)
        if self.which == 1:
            out = [('table-size', tn == k), ('cursor', rd.pos == c.p0), ('no-outputs', z3.And(S2.out_n == 0, S2.out_cnt(l) == 0))]
            out += c.ds.clauses(S2, k, l, i)
        elif self.which == 2:
            out = [('table-size', tn == c.nin + k), ('cursor', rd.pos == c.p0 + k), ('no-outputs', z3.And(S2.out_n == 0, S2.out_cnt(l) == 0))]
            out += c.ds.clauses(S2, c.nin + k, l, i)
        else:
            out = [('cursor', rd.pos == c.p0 + c.m + k),
                   ('outputs-so-far', z3.And(S2.out_n == k, z3.Implies(z3.And(i >= 0, i < k), S2.out_elem(i) == c.G(c.rd0.num(c.p0 + c.m + i))))),
                   ('outputs-are-gates', z3.Implies(S2.out_cnt(l) > 0, S2.dom(l)))]
        return out

    def inv(self, it, env, k):
        cx = it.ctx
        out = self._f(it, env, k, cx.fresh(LabelSort, 'ld'), cx.fresh(I, 'id'))
        if self.which in (1, 2):
            S2 = self.c.h2.S.copy()
            S2.rank = self.c.gidx
            out += [('WF/' + nm, f) for nm, f in CM.wf_goals(cx, S2)]
        return out

    def inv_assume(self, it, env, k):
        l, i = z3.Const('l!dl', LabelSort), z3.Int('i!dl')
        out = []
        for nm, f in self._f(it, env, k, l, i):
            for part in (list(f.children()) if z3.is_and(f) else [f]):
                used = [v for v in (l, i) if any(v.eq(w) for w in z3.z3util.get_vars(part))]
                out.append((nm, z3.ForAll(used, part) if used else part))
        return out


class DecodeBody(CircuitContract):
    relpath, qualname, name = ENC, '_decode_circuit_body', '_decode_circuit_body/any-stream'

    def setup(self, it, ctx):
        CM.install_user_contracts(it)
        CM.install_validation_loops(it)
        c2, h2 = CM.make_circuit(it, ctx, tag='dec', empty=True)
        x = z3.Const('x!ob', LabelSort)
        ctx.assume(z3.ForAll([x], z3.Not(h2.other_block(x))))
        self.h2 = h2
        _K[0] += 1
        k = _K[0]
        m_ = it.load_module('cirbo.circuits_db.circuits_encoding')
        z = z3.Int('z!gl')
        t = it.label_term(it.call(m_.env['_generate_label'], [Sym(z)], {}))
        G = lambda q: z3.substitute(t, (z, q))           # noqa: E731    gate_<q>
        gidx = z3.Function(f'gate_index!{k}', LabelSort, I)
        i, j = z3.Ints('i!db j!db')
        ctx.assume(z3.ForAll([i], z3.Implies(i >= 0, gidx(G(i)) == i)))       # decimal rendering is injective: gate_i determines i
        self.G, self.gidx = G, (lambda q: gidx(q))
        nin, q, m, p0, w = z3.Ints('inputs_count outputs_count intermediates_count rpos0 word_size')
        for v in (nin, q, m, p0, w):
            ctx.assume(v >= 0)
        self.nin, self.q, self.m, self.p0 = nin, q, m, p0
        ir = z3.Function(f'ditem_is_rec!{k}', I, B)
        rt = z3.Function(f'ditem_type!{k}', I, GTypeSort)
        ri = z3.Function(f'ditem_id!{k}', I, I, I)
        nm = z3.Function(f'ditem_num!{k}', I, I)
        rd = ItemReader(p0, lambda a: ir(a), lambda a: rt(a), lambda a, b: ri(a, b), lambda a: nm(a))
        self.rd0 = ItemReader(p0, rd.is_rec, rd.rtyp, rd.rid, rd.num)
        # precondition (shape of the stream the encoder produces): intermediates_count records of supported types, then numbers
        # (stated over the absolute position, so that the instances are found by matching is_rec(p) alone)
        ctx.assume(z3.ForAll([j], z3.Implies(z3.And(j >= p0, j < p0 + m), z3.And(ir(j), supported(rt(j)))), patterns=[ir(j)]))
        ctx.assume(z3.ForAll([j], z3.Implies(z3.And(j >= p0 + m, j < p0 + m + q), z3.Not(ir(j))), patterns=[ir(j)]))
        self.ds = DecodeState(self)
        contract = self

        # ---- contract of _decode_gate (c16_gate.DecodeGate), rule R4; the gate is added by the REAL circuit.add_gate
        def decode_gate(it_, fv, args, kwargs):
            rdr, ws, tb, circ = args[:4]
            if not isinstance(rdr, ItemReader) or not isinstance(tb, Table) or getattr(circ, 'holder', None) is not h2:
                raise Unsupported('_decode_gate with other arguments')
            cx = it_.ctx
            p = rdr.pos
            cx.check('decode_gate/pre/next-item-is-a-record-of-a-supported-type', z3.And(rdr.is_rec(p), supported(rdr.rtyp(p))))
            T = rdr.rtyp(p)
            two = cx.choose(_simp(arity_of(T) == 2))
            ids_ = [rdr.rid(p, 0)] + ([rdr.rid(p, 1)] if two else [])
            rdr.pos = p + 1
            for a in ids_:
                if not cx.choose(_simp(z3.And(a >= 0, a < tb.n))):
                    raise PyRaise(it_.instantiate(m_.env['CircuitEncodingError'], ['Invalid argument gate identifier'], {}))
            if two:
                sw = cx.fresh(B, 'operands_swapped')
                cx.assume(z3.Implies(sw, order_free(T)))
                ops = (Sym(z3.If(sw, contract.G(ids_[1]), contract.G(ids_[0]))), Sym(z3.If(sw, contract.G(ids_[0]), contract.G(ids_[1]))))
            else:
                ops = (Sym(contract.G(ids_[0])),)
            gm = it_.load_module('cirbo.core.circuit.gate')
            g = Obj(gm.env['Gate'], {'_label': Sym(contract.G(tb.n)), '_gate_type': Sym(T), '_operands': ops})
            it_.call(it_.getattr(circ, 'add_gate'), [g], {})
            tb.n = tb.n + 1
            return None
        it.contracts[ENC + '::_decode_gate'] = decode_gate
        for w_ in (1, 2, 3):
            it.loop_specs[(DKEY, w_)] = DecLoop(self, w_)
        st = {'h2': h2, 'c2': c2, 'G': G, 'gidx': self.gidx, 'nin': nin, 'q': q, 'm': m, 'p0': p0, 'rd0': self.rd0}
        self.cur_st = st
        return [rd, Sym(w), Sym(nin), Sym(q), Sym(m), c2], {}, st

    def post(self, it, ctx, result, st):
        h2, G, gidx, nin, q, m, p0, rd0 = st['h2'], st['G'], st['gidx'], st['nin'], st['q'], st['m'], st['p0'], st['rd0']
        CM.sync_fields(it, h2)
        S2 = h2.S
        l, i = ctx.fresh(LabelSort, 'lpd'), ctx.fresh(I, 'ipd')
        self.nin, self.p0, self.G, self.gidx, self.rd0 = nin, p0, G, gidx, rd0
        for nm_, f in DecodeState(self).clauses(S2, nin + m, l, i):
            yield ('D1/' + nm_, f)
        yield ('D2/outputs-are-the-decoded-identifiers-in-order', z3.And(S2.out_n == q, z3.Implies(z3.And(i >= 0, i < q), S2.out_elem(i) == G(rd0.num(p0 + m + i)))))
        env = st.get('env')
        yield ('D3/cursor-after-the-last-output', z3.BoolVal(env is not None) if env is None else (env['bit_reader'].pos == p0 + m + q))
        S2c = S2.copy()
        S2c.rank = gidx
        for nm_, f in CM.wf_goals(ctx, S2c):
            yield ('D4/WF/' + nm_, f)

    def on_raise(self, it, ctx, exc, st):
        n = self.exc_name(exc)
        nin, q, m, p0, rd0 = st['nin'], st['q'], st['m'], st['p0'], st['rd0']
        j = z3.Int('j!dr')
        if n == 'CircuitEncodingError':
            env = st.get('env')
            if env is None:
                yield ('raise/only-for-an-identifier-not-yet-decoded', z3.BoolVal(False), {'raised': n})
            else:
                jw = env['bit_reader'].pos - 1 - p0          # witness: the record read last
                yield ('raise/only-for-an-identifier-not-yet-decoded',
                       z3.And(jw >= 0, jw < m, z3.Or(z3.Not(z3.And(rd0.rid(p0 + jw, 0) >= 0, rd0.rid(p0 + jw, 0) < nin + jw)),
                                                     z3.And(arity_of(rd0.rtyp(p0 + jw)) == 2, z3.Not(z3.And(rd0.rid(p0 + jw, 1) >= 0, rd0.rid(p0 + jw, 1) < nin + jw))))), {'raised': n})
        elif n == 'CircuitValidationError':
            # witness: the output identifier read last (the cursor stands behind it)
            env = st.get('env')
            if env is None:
                yield ('raise/only-for-an-output-identifier-out-of-range', z3.BoolVal(False), {'raised': n})
            else:
                jw = env['bit_reader'].pos - 1 - (p0 + m)
                yield ('raise/only-for-an-output-identifier-out-of-range', z3.And(jw >= 0, jw < q, z3.Not(z3.And(rd0.num(p0 + m + jw) >= 0, rd0.num(p0 + m + jw) < nin + m))), {'raised': n})
        else:
            yield ('no-other-raise', z3.BoolVal(False), {'raised': n, 'witness': 'raises-' + n})


# =====================================================================================================================
#  composition: decode(encode(circuit)) is the circuit renamed by  rho(l) = gate_<identifier of l>
# =====================================================================================================================
def circuit_round_trip(pv):
    """Obligations over the CONTRACTS (no code is executed): hypotheses are the postconditions proved for
    _enumerate_gates (E1-E6), _encode_circuit_body (B1: records in identifier order, then output identifiers), _encode_gate /
    _decode_gate (content of a record: type code and operand identifiers, in order or - symmetric types - swapped) and
    _decode_circuit_body (D1, D2) read on the stream the encoder wrote, with the three counts the encoder writes
    (n_inputs, n_outputs, number of keys - n_inputs).  Conclusions: the decoded circuit is exactly the rho-image of the original."""
    from types import SimpleNamespace
    S0 = CM.fresh_state('rt0')
    S2 = CM.fresh_state('rt2')
    l, l2, x = z3.Consts('l!rt l2!rt x!rt', LabelSort)
    i, j = z3.Ints('i!rt j!rt')
    d = z3.Function('rt_ids_dom', LabelSort, B)
    v = z3.Function('rt_ids_val', LabelSort, I)
    ka = z3.Function('rt_ids_key', I, LabelSort)
    N = z3.Int('rt_ids_n')
    Gf = z3.Function('rt_gate_label', I, LabelSort)
    gidx = z3.Function('rt_gate_index', LabelSort, I)
    G = lambda q_: Gf(q_)                      # noqa: E731
    p0 = z3.Int('rt_p0')
    ir = z3.Function('rt_is_rec', I, B)
    rt = z3.Function('rt_type', I, GTypeSort)
    ri = z3.Function('rt_id', I, I, I)
    nmf = z3.Function('rt_num', I, I)
    rd0 = ItemReader(p0, lambda a: ir(a), lambda a: rt(a), lambda a, b: ri(a, b), lambda a: nmf(a))
    nin, q = S0.in_n, S0.out_n
    m = N - nin
    isin = lambda g: S0.typ(g) == GT['INPUT']       # noqa: E731
    rho = lambda g: G(v(g))                         # noqa: E731
    hyps = [p0 >= 0, N >= nin, nin >= 0, q >= 0]
    # original circuit: the parts of WF and of the format precondition that are used
    hyps += [z3.ForAll([l], S0.in_cnt(l) == z3.If(z3.And(S0.dom(l), isin(l)), 1, 0)),                                                  # W4
             z3.ForAll([i], z3.Implies(z3.And(i >= 0, i < nin), z3.And(S0.dom(S0.in_elem(i)), isin(S0.in_elem(i))))),
             z3.ForAll([i], z3.Implies(z3.And(i >= 0, i < q), S0.dom(S0.out_elem(i)))),                                               # W2 (positional)
             z3.ForAll([l, i], z3.Implies(z3.And(S0.dom(l), i >= 0, i < S0.nops(l)), S0.dom(S0.op(l, i)))),                          # W1 (positional)
             z3.ForAll([l], z3.Implies(z3.And(S0.dom(l), z3.Not(isin(l))), z3.Or([z3.And(S0.typ(l) == GT[t], S0.nops(l) == a) for t, a in SUPPORTED.items()]))),
             z3.ForAll([l], z3.Implies(z3.And(S0.dom(l), isin(l)), S0.nops(l) == 0))]
    # E1-E6 and the two lemmas proved on the path of _encode_circuit_body
    hyps += [z3.ForAll([l], d(l) == S0.dom(l)),
             z3.ForAll([i], z3.Implies(z3.And(i >= 0, i < nin), z3.And(d(S0.in_elem(i)), v(S0.in_elem(i)) == i))),
             z3.ForAll([l, l2], z3.Implies(z3.And(d(l), d(l2), v(l) == v(l2)), l == l2)),
             z3.ForAll([l, i], z3.Implies(z3.And(S0.dom(l), z3.Not(isin(l)), i >= 0, i < S0.nops(l)), z3.And(d(S0.op(l, i)), v(S0.op(l, i)) < v(l)))),
             z3.ForAll([l], z3.Implies(z3.And(S0.dom(l), z3.Not(isin(l))), v(l) >= nin)),
             z3.ForAll([i], z3.Implies(z3.And(i >= 0, i < N), z3.And(d(ka(i)), v(ka(i)) == i))),
             z3.ForAll([l], z3.Implies(d(l), z3.And(v(l) >= 0, v(l) < N))),
             z3.ForAll([l], z3.Implies(z3.And(S0.dom(l), isin(l)), z3.And(v(l) >= 0, v(l) < nin, S0.in_elem(v(l)) == l))),
             z3.ForAll([i], z3.Implies(z3.And(i >= 0, i < N), z3.And(S0.dom(ka(i)), isin(ka(i)) == (i < nin)))),
             z3.ForAll([l], z3.Implies(d(l), z3.And(v(l) >= 0, v(l) < N, ka(v(l)) == l)))]           # consequence of E3 + E6 (own obligation below)
    key_of_val = hyps.pop()
    # the stream: what _encode_circuit_body + _encode_gate wrote is what _decode_circuit_body + _decode_gate read
    g_ = ka(nin + j - p0)                   # j: absolute position of the record in the stream
    r_ = j
    ordered = z3.And(ri(r_, 0) == v(S0.op(g_, 0)), z3.Implies(S0.nops(g_) == 2, ri(r_, 1) == v(S0.op(g_, 1))))
    swapped = z3.And(order_free(S0.typ(g_)), S0.nops(g_) == 2, ri(r_, 0) == v(S0.op(g_, 1)), ri(r_, 1) == v(S0.op(g_, 0)))
    hyps += [z3.ForAll([j], z3.Implies(z3.And(j >= p0, j < p0 + m), z3.And(ir(r_), rt(r_) == S0.typ(g_), z3.Or(ordered, swapped))), patterns=[rt(j)]),
             z3.ForAll([j], z3.Implies(z3.And(j >= p0 + m, j < p0 + m + q), z3.And(z3.Not(ir(j)), nmf(j) == v(S0.out_elem(j - p0 - m)))), patterns=[nmf(j)])]
    # decoded circuit: D1 / D2 with the counts the encoder wrote
    ns = SimpleNamespace(G=G, gidx=lambda q_: gidx(q_), nin=nin, p0=p0, rd0=rd0)
    for _, f in DecodeState(ns).clauses(S2, nin + m, l, i):
        hyps.append(z3.ForAll([l, i], f))
    hyps += [S2.out_n == q, z3.ForAll([i], z3.Implies(z3.And(i >= 0, i < q), S2.out_elem(i) == G(nmf(p0 + m + i)))),
             z3.ForAll([i], z3.Implies(i >= 0, gidx(G(i)) == i))]
    fn = '_encode_circuit_body+_decode_circuit_body'
    pv.add_raw('C16/circuit-round-trip/lemma/identifier-k-belongs-to-key-k', fn, hyps, z3.Implies(d(l), z3.And(v(l) >= 0, v(l) < N, ka(v(l)) == l)), meta={'witness': 'circuit-round-trip'})
    hyps.append(key_of_val)
    goals = [
        ('every-gate-is-decoded-under-its-new-name', z3.Implies(S0.dom(l), S2.dom(rho(l)))),
        ('nothing-else-is-decoded', z3.Implies(S2.dom(x), z3.And(S0.dom(ka(gidx(x))), rho(ka(gidx(x))) == x))),
        ('renaming-is-injective', z3.Implies(z3.And(S0.dom(l), S0.dom(l2), rho(l) == rho(l2)), l == l2)),
        ('types-and-arities-kept', z3.Implies(S0.dom(l), z3.And(S2.typ(rho(l)) == S0.typ(l), S2.nops(rho(l)) == S0.nops(l)))),
        ('operands-kept-in-order-or-swapped-for-symmetric-types', z3.Implies(z3.And(S0.dom(l), z3.Not(isin(l))), z3.Or(
            z3.And(S2.op(rho(l), 0) == rho(S0.op(l, 0)), z3.Implies(S0.nops(l) == 2, S2.op(rho(l), 1) == rho(S0.op(l, 1)))),
            z3.And(order_free(S0.typ(l)), S0.nops(l) == 2, S2.op(rho(l), 0) == rho(S0.op(l, 1)), S2.op(rho(l), 1) == rho(S0.op(l, 0)))))),
        ('inputs-kept-in-order', z3.And(S2.in_n == nin, z3.Implies(z3.And(i >= 0, i < nin), S2.in_elem(i) == rho(S0.in_elem(i))))),
        ('outputs-kept-in-order', z3.And(S2.out_n == q, z3.Implies(z3.And(i >= 0, i < q), S2.out_elem(i) == rho(S0.out_elem(i))))),
        ('gate-count-kept', S2.size == N),
    ]
    for nm_, g in goals:
        pv.add_raw('C16/circuit-round-trip/' + nm_, fn, hyps, g, meta={'witness': 'circuit-round-trip'})
    # the hypotheses must be satisfiable (a contradictory set would prove everything)
    return hyps

"""C12  the protocol queries of the truth-table and the python-callable representation against their mathematical definitions,
for EVERY Boolean function with n inputs and m outputs at once (n <= 2 in the quick tier, n <= 3 thorough; m <= 2): the table is
2^n * m symbolic Booleans, so one symbolic execution of the real method covers all 2^(m 2^n) functions of that shape.

  TruthTable   object with the symbolic table as `_table` (and its transposition `_table_t`);
  PyFunction   real constructor around a callable that answers from the same symbolic table (any callable is such a table).
Queries: evaluate / evaluate_at (symbolic inputs), is_constant(_at), is_monotone(_at) (both directions; "monotone" as the
protocol documents it: the value does not decrease along the classic enumeration 00..0, 00..1, ...), is_symmetric(_at),
is_dependent_on_input_at, is_output_equal_to_input(_negation), get_significant_inputs_of, get_truth_table,
find_negations_to_make_symmetric (a set of input negations under which the chosen outputs are symmetric; None exactly when
there is none).
  Circuit      the real circuit  g = ty(x0, x1)  (outputs [g] or [g, x1]) with a SYMBOLIC binary gate type ty: the sixteen binary
               types are the sixteen functions of two inputs; the queries go through the real evaluate_circuit.
Shapes are width instances (like the arithmetic widths of C07-C09): all functions of the shape are covered, larger shapes and
circuits of other shapes stay with the bounded stand-in."""
import itertools
import z3

from ..pyvc.values import Sym, VList, Obj, Native, Unsupported
from ..pyvc.prove import Contract

TT = 'cirbo/core/truth_table.py'
PF = 'cirbo/core/python_function.py'
CIRC = 'cirbo/core/circuit/circuit.py'
BINARY_TYPES = ('AND', 'OR', 'NAND', 'NOR', 'XOR', 'NXOR', 'GT', 'LT', 'GEQ', 'LEQ', 'LIFF', 'RIFF', 'LNOT', 'RNOT', 'ALWAYS_TRUE', 'ALWAYS_FALSE')


def bits(j, n):
    return [(j >> (n - 1 - k)) & 1 == 1 for k in range(n)]          # big-endian: first input = most significant bit


def table(n, m):
    return [[z3.Bool(f't{o}_{j}') for j in range(1 << n)] for o in range(m)]


def b2i(x):
    return z3.If(x, 1, 0)


# ---------------------------------------------------------------- definitions
def d_constant_at(T, n, o):
    return z3.And([T[o][j] == T[o][0] for j in range(1 << n)])


def d_monotone_at(T, n, o, inverse):
    r = range(1 << n)
    if inverse:
        return z3.And([z3.Implies(T[o][j], T[o][i]) for i in r for j in r if i < j] or [z3.BoolVal(True)])
    return z3.And([z3.Implies(T[o][i], T[o][j]) for i in r for j in r if i < j] or [z3.BoolVal(True)])


def d_symmetric_at(T, n, o):
    r = range(1 << n)
    return z3.And([T[o][i] == T[o][j] for i in r for j in r if i < j and bin(i).count('1') == bin(j).count('1')] or [z3.BoolVal(True)])


def d_dependent(T, n, o, i):
    mask = 1 << (n - 1 - i)
    return z3.Or([T[o][j] != T[o][j | mask] for j in range(1 << n) if not j & mask] or [z3.BoolVal(False)])


def d_equal_input(T, n, o, i, neg):
    return z3.And([T[o][j] == z3.BoolVal(bits(j, n)[i] != neg) for j in range(1 << n)])


def d_symmetric_under(T, n, outs, neg):
    """the function restricted to the outputs `outs` is symmetric after negating the inputs selected by `neg`:
    equal values on all assignments x ^ neg with x of equal weight"""
    def idx(j):
        return sum((1 << (n - 1 - k)) for k in range(n) if bits(j, n)[k] != neg[k])
    r = range(1 << n)
    return z3.And([T[o][idx(i)] == T[o][idx(j)] for o in outs for i in r for j in r if i < j and bin(i).count('1') == bin(j).count('1')] or [z3.BoolVal(True)])


def same(it, v, want):
    """the returned value v denotes the Boolean `want` (a three-valued gate state must be the DEFINED state of that Boolean)"""
    from ..pyvc.values import ST_T, ST_F
    if isinstance(v, Sym) and v.is_state():
        return v.t == z3.If(want, ST_T, ST_F)
    return bool_term(it, v) == want


def bool_term(it, v):
    if isinstance(v, bool):
        return z3.BoolVal(v)
    if isinstance(v, Sym):
        return v.t
    if z3.is_expr(v):
        return v
    raise Unsupported('result is not a Boolean: %r' % (v,))


class Query(Contract):
    def __init__(self, kind, n, m, query, args=(), kwargs=None):
        self.kind, self.n, self.m, self.q, self.args, self.kw = kind, n, m, query, tuple(args), dict(kwargs or {})
        self.relpath = TT if kind == 'TruthTable' else (PF if kind == 'PyFunction' else CIRC)
        self.qualname = kind + '.' + query
        a = ','.join(str(x) for x in self.args) + (',' if self.args and self.kw else '') + ','.join(f'{k}={v}' for k, v in self.kw.items())
        self.name = f'{kind}.{query}({a})/{n}in{m}out'

    def make(self, it, ctx, T):
        n, m = self.n, self.m
        if self.kind == 'Circuit':
            # the real Circuit  x0, x1, g = <ty>(x0, x1)  with outputs [g] (m = 1) or [g, x1] (m = 2: an output that is an input),
            # where <ty> is a SYMBOLIC binary gate type: the sixteen binary types are the sixteen functions of two inputs, so the
            # table entries of output 0 are T[0][j] := OP(ty)(bits of j)
            from ..pyvc.values import GT, GTypeSort
            from ..pyvc import theory
            if n != 2 or m not in (1, 2):
                raise Unsupported('Circuit shape')
            ty = z3.Const('ty', GTypeSort)
            ctx.assume(z3.Or([ty == GT[t] for t in BINARY_TYPES]))
            for j in range(4):
                b = bits(j, 2)
                val = z3.BoolVal(False)
                for t in BINARY_TYPES:
                    val = z3.If(ty == GT[t], theory.OPz(t, [z3.BoolVal(b[0]), z3.BoolVal(b[1])]), val)
                ctx.assume(T[0][j] == val)
                if m == 2:
                    ctx.assume(T[1][j] == z3.BoolVal(b[1]))
            cm = it.load_module('cirbo.core.circuit.circuit')
            c = it.call(cm.env['Circuit'], [], {})
            it.call(it.getattr(c, 'add_inputs'), [VList(['x0', 'x1'])], {})
            it.call(it.getattr(c, 'emplace_gate'), ['g', Sym(ty), ('x0', 'x1')], {})
            it.call(it.getattr(c, 'set_outputs'), [VList(['g'] + (['x1'] if m == 2 else []))], {})
            return c
        if self.kind == 'TruthTable':
            mod = it.load_module('cirbo.core.truth_table')
            tab = VList([VList([Sym(T[o][j]) for j in range(1 << n)]) for o in range(m)])
            tab_t = VList([VList([Sym(T[o][j]) for o in range(m)]) for j in range(1 << n)])
            return Obj(mod.env['TruthTable'], {'_input_size': n, '_output_size': m, '_table': tab, '_table_t': tab_t})
        mod = it.load_module('cirbo.core.python_function')

        def func(args):
            xs = list(it.iterate(args))
            if len(xs) != n:
                raise Unsupported('callable invoked with %d arguments' % len(xs))
            if all(isinstance(x, bool) for x in xs):
                j = sum((1 << (n - 1 - k)) for k, x in enumerate(xs) if x)
                return VList([Sym(T[o][j]) for o in range(m)])
            out = []
            for o in range(m):
                r = T[o][0]
                for j in range(1, 1 << n):
                    cond = z3.And([(bool_term(it, x) if b else z3.Not(bool_term(it, x))) for x, b in zip(xs, bits(j, n))]) if n else z3.BoolVal(True)
                    r = z3.If(cond, T[o][j], r)
                out.append(Sym(r))
            return VList(out)
        return it.call(mod.env['PyFunction'], [Native('symbolic-table-callable', func), n], {'output_size': m})

    def setup(self, it, ctx):
        T = table(self.n, self.m)
        obj = self.make(it, ctx, T)
        args = [VList(list(x)) if isinstance(x, list) else x for x in self.args]
        xs = None
        if self.q in ('evaluate', 'evaluate_at'):
            xs = [z3.Bool(f'x{k}') for k in range(self.n)]
            args = [VList([Sym(x) for x in xs])] + args
        return [obj] + args, dict(self.kw), {'T': T, 'xs': xs}

    def post(self, it, ctx, result, st):
        T, n, m, q = st['T'], self.n, self.m, self.q
        a, kw = self.args, self.kw
        if q in ('evaluate', 'evaluate_at'):
            xs = st['xs']

            def at(o):
                r = T[o][0]
                for j in range(1, 1 << n):
                    r = z3.If(z3.And([x if b else z3.Not(x) for x, b in zip(xs, bits(j, n))]) if n else z3.BoolVal(True), T[o][j], r)
                return r
            if q == 'evaluate_at':
                yield ('value-of-the-table-at-the-canonical-index', same(it, result, at(a[0])))
            else:
                vals = list(it.iterate(result))
                yield ('one-value-per-output', z3.BoolVal(len(vals) == m))
                for o, v in enumerate(vals[:m]):
                    yield (f'output-{o}-is-the-table-entry-at-the-canonical-index', same(it, v, at(o)))
            return
        if q == 'get_truth_table':
            rows = [list(it.iterate(r)) for r in it.iterate(result)]
            ok = len(rows) == m and all(len(r) == (1 << n) for r in rows)
            yield ('shape', z3.BoolVal(ok))
            if ok:
                yield ('entries', z3.And([same(it, rows[o][j], T[o][j]) for o in range(m) for j in range(1 << n)]))
            return
        if q == 'find_negations_to_make_symmetric':
            outs = list(a[0])
            order = list(itertools.product((False, True), repeat=n))
            if result is None:
                yield ('none-only-if-no-negation-set-works', z3.And([z3.Not(d_symmetric_under(T, n, outs, list(v))) for v in order]))
                return
            got = list(it.iterate(result))
            ok_shape = len(got) == n and all(isinstance(x, bool) for x in got)
            yield ('a-negation-per-input', z3.BoolVal(ok_shape))
            if ok_shape:
                # WHICH of the working negation sets is returned is not part of the property
                yield ('returned-negations-make-the-outputs-symmetric', d_symmetric_under(T, n, outs, got))
            return
        if q == 'get_significant_inputs_of':
            got = list(it.iterate(result))
            # the returned list (concrete on each path) must be exactly the increasing list of inputs the output depends on
            ok_shape = all(isinstance(x, int) for x in got) and got == sorted(set(got))
            yield ('increasing-list-of-input-indices', z3.BoolVal(ok_shape))
            if ok_shape:
                yield ('exactly-the-inputs-the-output-depends-on', z3.And([d_dependent(T, n, a[0], i) == z3.BoolVal(i in got) for i in range(n)] or [z3.BoolVal(True)]))
            return
        inv = bool(kw.get('inverse', False))
        want = {
            'is_constant_at': lambda: d_constant_at(T, n, a[0]),
            'is_constant': lambda: z3.And([d_constant_at(T, n, o) for o in range(m)]),
            'is_monotone_at': lambda: d_monotone_at(T, n, a[0], inv),
            'is_monotone': lambda: z3.And([d_monotone_at(T, n, o, inv) for o in range(m)]),
            'is_symmetric_at': lambda: d_symmetric_at(T, n, a[0]),
            'is_symmetric': lambda: z3.And([d_symmetric_at(T, n, o) for o in range(m)]),
            'is_dependent_on_input_at': lambda: d_dependent(T, n, a[0], a[1]),
            'is_output_equal_to_input': lambda: d_equal_input(T, n, a[0], a[1], False),
            'is_output_equal_to_input_negation': lambda: d_equal_input(T, n, a[0], a[1], True),
        }[q]()
        yield ('equals-the-definition', same(it, result, want), {'witness': q})

    def replay(self, values):
        """native replay: the query on every function of the shape (<= 256 tables per output) against the definition"""
        import importlib
        n, m = self.n, self.m
        if (1 << n) * m > 8:
            return None
        if self.kind == 'Circuit':
            from ..spec import ops as SO
            from cirbo.core.circuit import Circuit, gate as G
            cases = []
            for t in BINARY_TYPES:
                c = Circuit()
                c.add_inputs(['x0', 'x1'])
                c.emplace_gate('g', getattr(G, t), ('x0', 'x1'))
                c.set_outputs(['g'] + (['x1'] if m == 2 else []))
                tab = [[bool(SO.OP(t, bits(j, 2))) for j in range(4)]] + ([[bits(j, 2)[1] for j in range(4)]] if m == 2 else [])
                cases.append((tab, c, f'{t}(x0, x1), outputs {c.outputs}'))
        else:
            mod = importlib.import_module('cirbo.core.truth_table' if self.kind == 'TruthTable' else 'cirbo.core.python_function')
            cases = []
            for flat in itertools.product((False, True), repeat=(1 << n) * m):
                tab = [list(flat[o * (1 << n):(o + 1) * (1 << n)]) for o in range(m)]
                cases.append((tab, None, None))
        for tab, f, descr in cases:
            if f is not None:
                pass
            elif self.kind == 'TruthTable':
                f = mod.TruthTable(tab)
            else:
                f = mod.PyFunction(lambda xs, tab=tab: [tab[o][sum((1 << (n - 1 - k)) for k, x in enumerate(xs) if x)] for o in range(m)], n, output_size=m)
            T = [[z3.BoolVal(v) for v in row] for row in tab]
            try:
                if self.q in ('evaluate', 'evaluate_at', 'get_truth_table', 'get_significant_inputs_of', 'find_negations_to_make_symmetric'):
                    continue
                got = getattr(f, self.q)(*self.args, **self.kw)
            except Exception as e:      # noqa
                return False, f'{self.kind}.{self.q}{self.args} on table {tab} raises {type(e).__name__}: {e}'
            inv = bool(self.kw.get('inverse', False))
            a = self.args
            want = {'is_constant_at': lambda: d_constant_at(T, n, a[0]), 'is_constant': lambda: z3.And([d_constant_at(T, n, o) for o in range(m)]),
                    'is_monotone_at': lambda: d_monotone_at(T, n, a[0], inv), 'is_monotone': lambda: z3.And([d_monotone_at(T, n, o, inv) for o in range(m)]),
                    'is_symmetric_at': lambda: d_symmetric_at(T, n, a[0]), 'is_symmetric': lambda: z3.And([d_symmetric_at(T, n, o) for o in range(m)]),
                    'is_dependent_on_input_at': lambda: d_dependent(T, n, a[0], a[1]),
                    'is_output_equal_to_input': lambda: d_equal_input(T, n, a[0], a[1], False),
                    'is_output_equal_to_input_negation': lambda: d_equal_input(T, n, a[0], a[1], True)}[self.q]()
            w = z3.is_true(z3.simplify(want))
            if bool(got) != w:
                return False, f'{self.kind}.{self.q}{self.args}{self.kw or ""} on {descr or "table"} {[[int(v) for v in r] for r in tab]} returns {got}, definition gives {w}'
        return True, 'the query agrees with the definition on every function of the shape'


def contracts(deep):
    out = []
    shapes = [(1, 1), (2, 1), (2, 2)] + ([(3, 1)] if deep else [])
    for kind in ('TruthTable', 'PyFunction'):
        for n, m in shapes:
            out.append(Query(kind, n, m, 'evaluate'))
            out.append(Query(kind, n, m, 'get_truth_table'))
            out.append(Query(kind, n, m, 'is_constant'))
            out.append(Query(kind, n, m, 'is_symmetric'))
            for inv in (False, True):
                out.append(Query(kind, n, m, 'is_monotone', kwargs={'inverse': inv}))
            out.append(Query(kind, n, m, 'find_negations_to_make_symmetric', [list(range(m))]))
            for o in range(m):
                out.append(Query(kind, n, m, 'find_negations_to_make_symmetric', [[o]]))
                out.append(Query(kind, n, m, 'evaluate_at', [o]))
                out.append(Query(kind, n, m, 'is_constant_at', [o]))
                out.append(Query(kind, n, m, 'is_symmetric_at', [o]))
                out.append(Query(kind, n, m, 'get_significant_inputs_of', [o]))
                for inv in (False, True):
                    out.append(Query(kind, n, m, 'is_monotone_at', [o], {'inverse': inv}))
                for i in range(n):
                    out.append(Query(kind, n, m, 'is_dependent_on_input_at', [o, i]))
                    out.append(Query(kind, n, m, 'is_output_equal_to_input', [o, i]))
                    out.append(Query(kind, n, m, 'is_output_equal_to_input_negation', [o, i]))
    for n, m in ((2, 1), (2, 2)):
        kind = 'Circuit'
        out.append(Query(kind, n, m, 'evaluate'))
        out.append(Query(kind, n, m, 'is_constant'))
        out.append(Query(kind, n, m, 'is_symmetric'))
        for inv in (False, True):
            out.append(Query(kind, n, m, 'is_monotone', kwargs={'inverse': inv}))
        for o in range(m):
            out.append(Query(kind, n, m, 'evaluate_at', [o]))
            out.append(Query(kind, n, m, 'is_constant_at', [o]))
            out.append(Query(kind, n, m, 'is_symmetric_at', [o]))
            out.append(Query(kind, n, m, 'get_significant_inputs_of', [o]))
            for inv in (False, True):
                out.append(Query(kind, n, m, 'is_monotone_at', [o], {'inverse': inv}))
            for i in range(n):
                out.append(Query(kind, n, m, 'is_dependent_on_input_at', [o, i]))
                out.append(Query(kind, n, m, 'is_output_equal_to_input', [o, i]))
                out.append(Query(kind, n, m, 'is_output_equal_to_input_negation', [o, i]))
    return out

"""C11  Bench text round-trips and the parser is faithful.

P (string theory; for EVERY identifier label, incl. labels that begin with input/output/vdd/buff in any case):
   line classification of AbstractBenchParser._process_line on the four kinds of printed lines (gate definition,
   INPUT(..), OUTPUT(..), comment/blank); _parse_name_gate splits a printed gate line into exactly (label, body);
   _process_input_gate / _process_output_gate recover exactly the label. The printed forms are those of
   Gate.format_gate / Circuit.format_circuit (checked by symbolic execution of format_gate on a symbolic label).
B: whole-text round trips and free-form layouts on enumerated circuits (vlib/bounded/C11.py), which also cover
   operand splitting and the operator dispatch."""
import z3

from .. import env
from ..pyvc.values import Sym, Obj, VList, Native, Unsupported
from ..pyvc.prove import Prover, Contract
from .common import new_interp, finish_refuted, canary, STD_TRUSTED, STD_ASSUME, run_bounded

LEVEL = 'other'
BENCH = 'cirbo/core/parser/bench.py'
SS = z3.StringSort()


def ident(s):
    first = z3.Union(z3.Range('a', 'z'), z3.Range('A', 'Z'), z3.Re('_'))
    rest = z3.Union(first, z3.Range('0', '9'), z3.Re('.'), z3.Re('['), z3.Re(']'))
    return z3.InRe(s, z3.Concat(first, z3.Star(rest)))


def parser(it, record):
    m = it.load_module('cirbo.core.parser.bench')
    cls = m.env['BenchToCircuit']
    o = Obj(cls, {'_processings': None})
    for nm in ('_process_input_gate', '_process_output_gate', '_process_operator_gate'):
        def h(it_, fv, args, kwargs, nm=nm):
            record.append((nm, args[1]))
            return VList([])
        it.contracts[BENCH + '::BenchToCircuit.' + nm] = h
        it.contracts[BENCH + '::AbstractBenchParser.' + nm] = h
    return o


BODIES = ['AND(a, b)', 'NOT(input1)', 'BUFF(x)', 'XOR(a, b, c)', 'ALWAYS_TRUE()', 'vdd', 'GEQ(output, INPUT)']


class Classify(Contract):
    relpath, qualname = BENCH, 'AbstractBenchParser._process_line'
    strings = True

    def __init__(self, kind, body=None):
        self.kind, self.body = kind, body
        self.name = f'_process_line/{kind}' + (f'/{body}' if body else '')

    def setup(self, it, ctx):
        it.string_mode = True
        L = z3.String('L')
        ctx.assume(ident(L))
        rec = []
        o = parser(it, rec)
        if self.kind == 'gate':
            line = z3.Concat(L, z3.StringVal(' = ' + self.body))
        elif self.kind == 'input':
            line = z3.Concat(z3.StringVal('INPUT('), L, z3.StringVal(')'))
        elif self.kind == 'output':
            line = z3.Concat(z3.StringVal('OUTPUT('), L, z3.StringVal(')'))
        elif self.kind == 'comment':
            line = z3.Concat(z3.StringVal('#'), L)
        else:
            line = z3.StringVal('')
        return [o, Sym(line)], {}, {'rec': rec, 'line': line, 'L': L}

    def post(self, it, ctx, result, st):
        it.string_mode = False
        rec = st['rec']
        want = {'gate': '_process_operator_gate', 'input': '_process_input_gate', 'output': '_process_output_gate'}.get(self.kind)
        if want is None:
            yield ('ignored', z3.BoolVal(len(rec) == 0))
        else:
            yield ('dispatched-to-' + want, z3.BoolVal(len(rec) == 1 and rec[0][0] == want), {'witness': 'label-starts-with-keyword'})
            if len(rec) == 1:
                yield ('whole-line-forwarded', rec[0][1].t == st['line'] if isinstance(rec[0][1], Sym) else z3.BoolVal(False))

    def on_raise(self, it, ctx, exc, st):
        it.string_mode = False
        return Contract.on_raise(self, it, ctx, exc, st)


class ParseName(Contract):
    relpath, qualname = BENCH, 'AbstractBenchParser._parse_name_gate'
    strings = True

    def __init__(self, body, sep=' = '):
        self.body, self.sep = body, sep
        self.name = f'_parse_name_gate/{body}/sep{len(sep)}'

    def setup(self, it, ctx):
        it.string_mode = True
        L = z3.String('L')
        ctx.assume(ident(L))
        o = parser(it, [])
        line = z3.Concat(L, z3.StringVal(self.sep + self.body))
        return [o, Sym(line)], {}, {'L': L}

    def post(self, it, ctx, result, st):
        it.string_mode = False
        name, body = result
        yield ('name-is-the-label', it.label_or_str(name) == st['L'], {'witness': 'name'})
        yield ('body-is-the-definition', it.label_or_str(body) == z3.StringVal(self.body), {'witness': 'body'})

    def on_raise(self, it, ctx, exc, st):
        it.string_mode = False
        return Contract.on_raise(self, it, ctx, exc, st)


class Decl(Contract):
    relpath = BENCH
    strings = True

    def __init__(self, kind, tail=')'):
        self.kind, self.tail = kind, tail
        self.qualname = 'BenchToCircuit._process_' + kind + '_gate'
        self.name = f'_process_{kind}_gate/tail{len(tail)}'

    def setup(self, it, ctx):
        it.string_mode = True
        L = z3.String('L')
        ctx.assume(ident(L))
        m = it.load_module('cirbo.core.parser.bench')
        got = []

        class Sink:
            pass
        from ..pyvc.interp import Model

        class CircuitSink(Model):
            def m_getattr(self_, it_, name):
                if name == '_emplace_gate':
                    return Native('sink._emplace_gate', lambda label, gt, *a, **k: got.append(('input', label)))
                if name == '_outputs':
                    return OutSink()
                raise Unsupported('circuit.' + name)

        class OutSink(Model):
            def m_getattr(self_, it_, name):
                if name == 'append':
                    return Native('sink.outputs.append', lambda label: got.append(('output', label)))
                raise Unsupported('outputs.' + name)
        o = Obj(m.env['BenchToCircuit'], {'_circuit': CircuitSink()})
        kw = 'INPUT(' if self.kind == 'input' else 'OUTPUT('
        line = z3.Concat(z3.StringVal(kw), L, z3.StringVal(self.tail))
        return [o, Sym(line)], {}, {'L': L, 'got': got}

    def post(self, it, ctx, result, st):
        it.string_mode = False
        got = st['got']
        yield ('one-declaration', z3.BoolVal(len(got) == 1 and got[0][0] == self.kind))
        if len(got) == 1:
            yield ('label-recovered', it.label_or_str(got[0][1]) == st['L'], {'witness': 'declaration-label'})

    def on_raise(self, it, ctx, exc, st):
        it.string_mode = False
        return Contract.on_raise(self, it, ctx, exc, st)


def run(rep):
    quick = env.TIER != 'thorough'
    rep.trusted_base = list(STD_TRUSTED) + ['axioms of str.strip / str.find / slicing / upper as encoded in vlib/pyvc/lib.py (string theory of z3 and cvc5)']
    for a in STD_ASSUME:
        rep.assume(a)
    rep.assume('operand splitting (_parse_operator_gate), the operator dispatch table and whole texts are covered by the bounded stand-in only (split/join chains are not decided by the string solvers)')
    it = new_interp()
    it.label_or_str = lambda v: v.t if isinstance(v, Sym) else z3.StringVal(v)
    pv = Prover(rep, it, 'C11')
    cs = [Classify('gate', b) for b in BODIES] + [Classify('input'), Classify('output'), Classify('comment'), Classify('blank')]
    cs += [ParseName(b) for b in BODIES[:4]] + [ParseName('AND(a, b)', '='), ParseName('OR(x, y)', '  =   ')]
    cs += [Decl('input'), Decl('output'), Decl('input', ')\n'), Decl('output', ') ')]
    for c in cs:
        it.contracts.clear()
        pv.run_contract(c)
    it.string_mode = False
    a = z3.String('a')
    canary(rep, pv, 'C11/canary/identifier-has-no-dot', [ident(a)], z3.Not(z3.Contains(a, z3.StringVal('.'))))
    refuted = pv.discharge(env.NPROC)
    finish_refuted(rep, pv, refuted)
    run_bounded(rep, 'C11', quick)
    rep.extra['explanation'] = 'line classification and name/label extraction proved for every identifier label with the string theories of z3/cvc5; texts as a whole: bounded stand-in.'

"""C11  Bench text round-trips and the parser is faithful.

P (string theory; for EVERY identifier label, incl. labels that begin with input/output/vdd/buff in any case):
   line classification of AbstractBenchParser._process_line on the four kinds of printed lines (gate definition,
   INPUT(..), OUTPUT(..), comment/blank); _parse_name_gate splits a printed gate line into exactly (label, body);
   _process_input_gate / _process_output_gate recover exactly the label. The printed forms are those of
   Gate.format_gate / Circuit.format_circuit (checked by symbolic execution of format_gate on a symbolic label).
   _process_operator_gate (real constructor, the two string parsers replaced by their results): for every operator name
   incl. BUFF / vdd exactly one gate is stored with the label, the denoted gate type and the operands in textual order.
B: whole-text round trips and free-form layouts on enumerated circuits (vlib/bounded/C11.py), which also cover
   operand splitting (_parse_operator_gate)."""
import z3

from .. import env
from ..pyvc.values import Sym, Obj, VList, Native, Unsupported
from ..pyvc.prove import Prover, Contract
from .common import new_interp, finish_refuted, canary, STD_TRUSTED, STD_ASSUME, run_bounded

LEVEL = 'other'
BENCH = 'cirbo/core/parser/bench.py'
SS = z3.StringSort()


def ident(s):
    first = z3.Union(z3.Range('a', 'z'), z3.Range('A', 'Z'), z3.Re('_'))
    rest = z3.Union(first, z3.Range('0', '9'), z3.Re('.'), z3.Re('['), z3.Re(']'))
    return z3.InRe(s, z3.Concat(first, z3.Star(rest)))


def parser(it, record):
    m = it.load_module('cirbo.core.parser.bench')
    cls = m.env['BenchToCircuit']
    o = Obj(cls, {'_processings': None})
    for nm in ('_process_input_gate', '_process_output_gate', '_process_operator_gate'):
        def h(it_, fv, args, kwargs, nm=nm):
            record.append((nm, args[1]))
            return VList([])
        it.contracts[BENCH + '::BenchToCircuit.' + nm] = h
        it.contracts[BENCH + '::AbstractBenchParser.' + nm] = h
    return o


BODIES = ['AND(a, b)', 'NOT(input1)', 'BUFF(x)', 'XOR(a, b, c)', 'ALWAYS_TRUE()', 'vdd', 'GEQ(output, INPUT)']


class Classify(Contract):
    relpath, qualname = BENCH, 'AbstractBenchParser._process_line'
    strings = True

    def __init__(self, kind, body=None):
        self.kind, self.body = kind, body
        self.name = f'_process_line/{kind}' + (f'/{body}' if body else '')

    def setup(self, it, ctx):
        it.string_mode = True
        L = z3.String('L')
        ctx.assume(ident(L))
        rec = []
        o = parser(it, rec)
        if self.kind == 'gate':
            line = z3.Concat(L, z3.StringVal(' = ' + self.body))
        elif self.kind == 'input':
            line = z3.Concat(z3.StringVal('INPUT('), L, z3.StringVal(')'))
        elif self.kind == 'output':
            line = z3.Concat(z3.StringVal('OUTPUT('), L, z3.StringVal(')'))
        elif self.kind == 'comment':
            line = z3.Concat(z3.StringVal('#'), L)
        else:
            line = z3.StringVal('')
        return [o, Sym(line)], {}, {'rec': rec, 'line': line, 'L': L}

    def post(self, it, ctx, result, st):
        it.string_mode = False
        rec = st['rec']
        want = {'gate': '_process_operator_gate', 'input': '_process_input_gate', 'output': '_process_output_gate'}.get(self.kind)
        if want is None:
            yield ('ignored', z3.BoolVal(len(rec) == 0))
        else:
            yield ('dispatched-to-' + want, z3.BoolVal(len(rec) == 1 and rec[0][0] == want), {'witness': 'label-starts-with-keyword'})
            if len(rec) == 1:
                yield ('whole-line-forwarded', rec[0][1].t == st['line'] if isinstance(rec[0][1], Sym) else z3.BoolVal(False))

    def on_raise(self, it, ctx, exc, st):
        it.string_mode = False
        return Contract.on_raise(self, it, ctx, exc, st)


class ParseName(Contract):
    relpath, qualname = BENCH, 'AbstractBenchParser._parse_name_gate'
    strings = True

    def __init__(self, body, sep=' = '):
        self.body, self.sep = body, sep
        self.name = f'_parse_name_gate/{body}/sep{len(sep)}'

    def setup(self, it, ctx):
        it.string_mode = True
        L = z3.String('L')
        ctx.assume(ident(L))
        o = parser(it, [])
        line = z3.Concat(L, z3.StringVal(self.sep + self.body))
        return [o, Sym(line)], {}, {'L': L}

    def post(self, it, ctx, result, st):
        it.string_mode = False
        name, body = result
        yield ('name-is-the-label', it.label_or_str(name) == st['L'], {'witness': 'name'})
        yield ('body-is-the-definition', it.label_or_str(body) == z3.StringVal(self.body), {'witness': 'body'})

    def on_raise(self, it, ctx, exc, st):
        it.string_mode = False
        return Contract.on_raise(self, it, ctx, exc, st)


class Decl(Contract):
    relpath = BENCH
    strings = True

    def __init__(self, kind, tail=')'):
        self.kind, self.tail = kind, tail
        self.qualname = 'BenchToCircuit._process_' + kind + '_gate'
        self.name = f'_process_{kind}_gate/tail{len(tail)}'

    def setup(self, it, ctx):
        it.string_mode = True
        L = z3.String('L')
        ctx.assume(ident(L))
        m = it.load_module('cirbo.core.parser.bench')
        got = []

        class Sink:
            pass
        from ..pyvc.interp import Model

        class CircuitSink(Model):
            def m_getattr(self_, it_, name):
                if name == '_emplace_gate':
                    return Native('sink._emplace_gate', lambda label, gt, *a, **k: got.append(('input', label)))
                if name == '_outputs':
                    return OutSink()
                raise Unsupported('circuit.' + name)

        class OutSink(Model):
            """the output list so far: ARBITRARY contents (a membership test gets an unconstrained answer - the label may or may not
            have been declared as an output before; repeated OUTPUT lines are legal and must be kept, seed C11-d)"""
            def m_getattr(self_, it_, name):
                if name == 'append':
                    return Native('sink.outputs.append', lambda label: got.append(('output', label)))
                raise Unsupported('outputs.' + name)

            def m_contains(self_, it_, x):
                return it_.ctx.fresh(z3.BoolSort(), 'already_an_output')

            def m_len(self_, it_):
                n = it_.ctx.fresh(z3.IntSort(), 'n_outputs')
                it_.ctx.assume(n >= 0)
                return Sym(n)
        o = Obj(m.env['BenchToCircuit'], {'_circuit': CircuitSink()})
        kw = 'INPUT(' if self.kind == 'input' else 'OUTPUT('
        line = z3.Concat(z3.StringVal(kw), L, z3.StringVal(self.tail))
        return [o, Sym(line)], {}, {'L': L, 'got': got}

    def post(self, it, ctx, result, st):
        it.string_mode = False
        got = st['got']
        yield ('one-declaration', z3.BoolVal(len(got) == 1 and got[0][0] == self.kind))
        if len(got) == 1:
            yield ('label-recovered', it.label_or_str(got[0][1]) == st['L'], {'witness': 'declaration-label'})

    def on_raise(self, it, ctx, exc, st):
        it.string_mode = False
        return Contract.on_raise(self, it, ctx, exc, st)


DISPATCH = {'NOT': ('NOT', [1]), 'AND': ('AND', [2, 3]), 'NAND': ('NAND', [2, 3]), 'OR': ('OR', [2, 3]), 'NOR': ('NOR', [2, 3]), 'XOR': ('XOR', [2, 3]),
            'NXOR': ('NXOR', [2, 3]), 'GEQ': ('GEQ', [2]), 'GT': ('GT', [2]), 'LEQ': ('LEQ', [2]), 'LT': ('LT', [2]), 'LNOT': ('LNOT', [2]), 'RNOT': ('RNOT', [2]),
            'LIFF': ('LIFF', [2]), 'RIFF': ('RIFF', [2]), 'IFF': ('IFF', [1]), 'BUFF': ('IFF', [1]), 'ALWAYS_TRUE': ('ALWAYS_TRUE', [0, 1]),
            'ALWAYS_FALSE': ('ALWAYS_FALSE', [0, 1]), 'VDD': ('ALWAYS_TRUE', [0])}


class Dispatch(Contract):
    """_process_operator_gate on a gate line whose two parsers (proved separately) returned (label, body) and (OPERATOR,
    [operands]): exactly one gate is stored — label, the gate type the operator name denotes (incl. the BUFF / vdd aliases),
    the operands in their textual order. Labels are arbitrary; the parser object is built by the real constructor."""
    relpath, qualname = BENCH, 'AbstractBenchParser._process_operator_gate'

    def __init__(self, op, arity):
        self.op, self.arity = op, arity
        self.name = f'_process_operator_gate/{op}/{arity}operands'

    def setup(self, it, ctx):
        from ..pyvc.values import LabelSort
        from ..pyvc.interp import Model
        m = it.load_module('cirbo.core.parser.bench')
        o = it.call(m.env['BenchToCircuit'], [], {})
        got = []

        class CircuitSink(Model):
            def m_getattr(self_, it_, name):
                if name == '_emplace_gate':
                    def emplace(*a, **k):
                        got.append((a, k))
                    return Native('sink._emplace_gate', emplace)
                raise Unsupported('circuit.' + name)
        o.fields['_circuit'] = CircuitSink()
        L = z3.Const('L', LabelSort)
        ops = [z3.Const(f'a{i}', LabelSort) for i in range(self.arity)]
        body = 'vdd' if self.op == 'VDD' else 'XYZ(...)'
        h1 = lambda it_, fv, args, kwargs: (Sym(L), body)
        h2 = lambda it_, fv, args, kwargs: (self.op, VList([Sym(x) for x in ops]))
        for cls in ('AbstractBenchParser', 'BenchToCircuit'):
            it.contracts[BENCH + f'::{cls}._parse_name_gate'] = h1
            it.contracts[BENCH + f'::{cls}._parse_operator_gate'] = h2
        return [o, 'ignored: the two parsers are replaced by their results'], {}, {'L': L, 'ops': ops, 'got': got}

    def post(self, it, ctx, result, st):
        got, L, ops = st['got'], st['L'], st['ops']
        yield ('exactly-one-gate-stored', z3.BoolVal(len(got) == 1))
        if len(got) != 1:
            return
        a, k = got[0]
        names = ('label', 'gate_type', 'operands')
        vals = dict(zip(names, a))
        vals.update(k)
        want_type, _ = DISPATCH[self.op]
        gt = vals.get('gate_type')
        yield ('label', it.label_term(vals.get('label')) == L, {'witness': 'dispatch'})
        yield ('gate-type-of-the-operator-name', z3.BoolVal(getattr(gt, 'name', None) == want_type or (isinstance(gt, Obj) and gt.fields.get('_name') == want_type)), {'witness': 'dispatch-table'})
        opv = vals.get('operands', ())
        opl = list(opv) if isinstance(opv, tuple) else list(it.iterate(opv))
        n_want = 0 if want_type in ('ALWAYS_TRUE', 'ALWAYS_FALSE') else len(ops)
        yield ('operand-count', z3.BoolVal(len(opl) == n_want), {'witness': 'dispatch'})
        if len(opl) == n_want:
            for j in range(n_want):
                yield (f'operand{j}-in-textual-order', it.label_term(opl[j]) == ops[j], {'witness': 'operand-order'})


def run(rep):
    quick = env.TIER != 'thorough'
    rep.trusted_base = list(STD_TRUSTED) + ['axioms of str.strip / str.find / slicing / upper as encoded in vlib/pyvc/lib.py (string theory of z3 and cvc5)']
    for a in STD_ASSUME:
        rep.assume(a)
    rep.assume('operand splitting (_parse_operator_gate: find / slice / strip / split chains) and whole texts are covered by the bounded stand-in only: an attempt to verify it in the string theories '
               '(witness decomposition for split, solver-aided constant folding for upper) left every obligation undecided at 160 s in z3 and cvc5 and was dropped; '
               'the operator dispatch (_process_operator_gate with the two parsers replaced by their results) is proved for every operator name incl. the BUFF / vdd aliases')
    it = new_interp()
    it.label_or_str = lambda v: v.t if isinstance(v, Sym) else z3.StringVal(v)
    pv = Prover(rep, it, 'C11')
    cs = [Classify('gate', b) for b in BODIES] + [Classify('input'), Classify('output'), Classify('comment'), Classify('blank')]
    cs += [ParseName(b) for b in BODIES[:4]] + [ParseName('AND(a, b)', '='), ParseName('OR(x, y)', '  =   ')]
    cs += [Decl('input'), Decl('output'), Decl('input', ')\n'), Decl('output', ') ')]
    disp = [Dispatch(op, ar) for op, (_, ars) in DISPATCH.items() for ar in ars]
    for c in cs:
        it.contracts.clear()
        pv.run_contract(c)
    it.string_mode = False
    for c in disp:
        it.contracts.clear()
        pv.run_contract(c)
    it.contracts.clear()
    a = z3.String('a')
    canary(rep, pv, 'C11/canary/identifier-has-no-dot', [ident(a)], z3.Not(z3.Contains(a, z3.StringVal('.'))))
    refuted = pv.discharge(env.NPROC)
    finish_refuted(rep, pv, refuted)
    run_bounded(rep, 'C11', quick)
    rep.extra['explanation'] = 'line classification and name/label extraction proved for every identifier label with the string theories of z3/cvc5; texts as a whole: bounded stand-in.'

"""C15  Evaluation under partial assignments is sound and monotone.

P: every three-valued operator is monotone w.r.t. the information order (U below F, T) in every
   argument and total on total arguments; n-ary operators equal the fold of their own binary case for
   every arity (fold induction), so monotonicity/totality lift to all arities (background lemma:
   a fold of a monotone step is monotone); circuit level (c01_eval): totality of both evaluation loops under a total assignment, and
   SOUNDNESS of evaluate_full_circuit AND evaluate_circuit under an arbitrary PARTIAL assignment: every returned value is Undefined or equals den under an
   arbitrary completion of the assignment (loop invariant over the top_sort contract, fold invariant "acc = U or acc = Boolean fold").
B: all 3^n partial assignments x all completions on enumerated circuits (vlib/bounded/C15.py)."""
import z3

from .. import env
from ..pyvc.values import Sym, StateSort, ST_T, ST_F, ST_U
from ..pyvc.interp import StarTail
from ..pyvc.models import SymSeq
from ..pyvc.prove import Prover, Contract
from ..pyvc import theory
from ..spec import ops as S
from .common import new_interp, finish_refuted, canary, STD_TRUSTED, STD_ASSUME, real
from .C01 import FN_OF_TYPE, OPS, fixed_arities, gate_operator_getter

LEVEL = 'proof'


def _native_state(v):
    ops = real('cirbo.core.circuit.operators')
    return {'F': False, 'T': True, 'U': ops.Undefined}[v]


class Monotone(Contract):
    """x ⊑ x' pointwise  ⇒  f(x) ⊑ f(x');  x total ⇒ f(x) total"""

    def __init__(self, tname, arity):
        self.t, self.arity = tname, arity
        self.relpath, self.qualname = 'cirbo/core/circuit/gate.py', 'GateType.operator'
        self.name = f'gate.{tname}.operator/kleene{arity}'

    def setup(self, it, ctx):
        xs = [z3.Const(f'x{i}', StateSort) for i in range(self.arity)]
        ys = [z3.Const(f'y{i}', StateSort) for i in range(self.arity)]
        for x, y in zip(xs, ys):
            ctx.assume(theory.leq_info(x, y))
        return [Sym(x) for x in xs], {}, {'xs': xs, 'ys': ys}

    def execute(self, it, fv, args, kwargs):
        f = gate_operator_getter(self.t)(it)
        st_ys = [Sym(z3.Const(f'y{i}', StateSort)) for i in range(self.arity)]
        return (it.call(f, args, {}), it.call(f, st_ys, {}))

    def post(self, it, ctx, result, st):
        r1, r2 = it.state_term(result[0]), it.state_term(result[1])
        yield ('monotone', theory.leq_info(r1, r2))
        yield ('total-on-total', z3.Implies(z3.And([x != ST_U for x in st['xs']]), r1 != ST_U))

    def inputs(self, st):
        return {'x': st['xs'], 'y': st['ys']}

    def replay(self, values):
        g = real('cirbo.core.circuit.gate')
        op = getattr(g, self.t).operator
        ops = real('cirbo.core.circuit.operators')
        x = [_native_state(v) for v in values['x']]
        y = [_native_state(v) for v in values['y']]
        r1, r2 = op(*x), op(*y)
        und = lambda v: isinstance(v, type(ops.Undefined))
        ok = (und(r1) or (not und(r2) and r1 == r2)) and (any(und(v) for v in x) or not und(r1))
        return ok, f'{self.t}{tuple(values["x"])}={r1!r}, {self.t}{tuple(values["y"])}={r2!r}'


class Fold3(Contract):
    """three-valued n-ary f(a, b, *rest) equals the left fold of its own binary case, for every arity"""

    def __init__(self, tname):
        self.t = tname
        self.relpath, self.qualname = 'cirbo/core/circuit/gate.py', 'GateType.operator'
        self.name = f'gate.{tname}.operator/is-fold-of-binary-case'

    def setup(self, it, ctx):
        # the binary case of the underlying (non negated) operator, as a term T(p, q), obtained by
        # symbolic execution of the real function on two symbolic states
        base = {'NAND': 'AND', 'NOR': 'OR', 'NXOR': 'XOR'}.get(self.t, self.t)
        fbase = gate_operator_getter(base)(it)
        p, q = z3.Const('p!', StateSort), z3.Const('q!', StateSort)
        tpq = it.state_term(it.call(fbase, [Sym(p), Sym(q)], {}))
        step = lambda u, v: z3.substitute(tpq, (p, u), (q, v))
        a, b = z3.Const('a', StateSort), z3.Const('b', StateSort)
        n = z3.Int('n')
        ctx.assume(n >= 0)
        val = z3.Function('restval', z3.IntSort(), StateSort)
        F3 = z3.Function('F3', z3.IntSort(), StateSort)
        i = z3.Int('i')
        ctx.assume(F3(0) == step(a, b))
        ctx.assume(z3.ForAll([i], z3.Implies(z3.And(i >= 0, i < n), F3(i + 1) == step(F3(i), val(i))), patterns=[F3(i + 1)]))
        seq = SymSeq([], n, lambda k: Sym(val(k)))
        seq.fold_inv = lambda it_, acc, k: [('acc-is-fold', it_.state_term(acc) == F3(k))]
        seq.fold_havoc = lambda it_: Sym(it_.ctx.fresh(StateSort, 'acc'))
        # negation for NAND/NOR/NXOR is the real not_
        notf = gate_operator_getter('NOT')(it)
        r = z3.Const('r!', StateSort)
        tnot = it.state_term(it.call(notf, [Sym(r)], {}))
        return [Sym(a), Sym(b), StarTail(seq)], {}, {'F3': F3, 'n': n, 'neg': self.t in ('NAND', 'NOR', 'NXOR'),
                                                       'not': lambda u: z3.substitute(tnot, (r, u))}

    def execute(self, it, fv, args, kwargs):
        return it.call(gate_operator_getter(self.t)(it), args, kwargs)

    def post(self, it, ctx, result, st):
        f = st['F3'](st['n'])
        yield ('is-fold', it.state_term(result) == (st['not'](f) if st['neg'] else f))


def run(rep):
    quick = env.TIER != 'thorough'
    rep.trusted_base = list(STD_TRUSTED) + ['background lemma: a left fold of a ⊑-monotone, total-on-total binary step is ⊑-monotone and total-on-total (induction on the length)']
    for a in STD_ASSUME:
        rep.assume(a)
    it = new_interp()
    pv = Prover(rep, it, 'C15')
    from . import c01_eval
    c01_eval.add_c15(rep, pv, it)      # VCs of the two evaluation loops are generated in child processes meanwhile
    for t in S.GATE_TYPES:
        if t == 'INPUT':
            continue
        for ar in fixed_arities(t):
            pv.run_contract(Monotone(t, ar))
        if t in S.NARY:
            pv.run_contract(Fold3(t))
    x, y = z3.Consts('x y', StateSort)
    canary(rep, pv, 'C15/canary/order-is-total', [], z3.Or(theory.leq_info(x, y), theory.leq_info(y, x)))
    refuted = pv.discharge(env.NPROC)
    finish_refuted(rep, pv, refuted)
    from .common import run_bounded
    run_bounded(rep, 'C15', quick)
    rep.extra['explanation'] = ('Per-operator Kleene monotonicity and totality are proved from the real tables for all argument values; n-ary '
                                'operators are proved to be folds of their binary case for every arity; at circuit level totality (both loops) and soundness of '
                                'evaluate_full_circuit and evaluate_circuit under every partial assignment and every completion are proved by loop invariants (c01_eval); '
                                'monotonicity in the assignment at circuit level: bounded stand-in.')

"""C02  copy.copy(circuit) (Circuit.__copy__) on an ARBITRARY well-formed circuit: the result is a NEW Circuit object whose
gates (types, operand tuples), input list, output list and (generic) block are those of the original, which is itself
untouched; the copy is well formed and shares no container with the original.

Loop 1 (`for cur_gate in self.top_sort(inverse=True): new_circuit.emplace_gate(...)`): top_sort through its contract (C20:
every gate once, operands first); invariant: the new circuit holds exactly the gates yielded so far, with the original
definitions, and is well formed. set_inputs / set_outputs / make_block are inlined from the source with their own loop
specs (c02_order.PrefixCopyLoop, C02.AllGatesLoop, validation loops)."""
import z3

from ..pyvc.values import Sym, LabelSort, GT, Obj, Unsupported, VList, VDict
from ..pyvc import circuit_model as CM
from .C02 import CircuitContract, state_eq, AllGatesLoop, CIRC
from .c02_order import PrefixCopyLoop

I = z3.IntSort()
B = z3.BoolSort()
_K = [0]


class YieldSeq:
    """top_sort(inverse=True) by contract: y(0..n-1), every gate once, operands first"""
    prefix = []

    def __init__(self, it, h, y, n):
        self.it, self.h, self.y, self.n = it, h, y, n

    def elem(self, i):
        return CM.make_gate_obj(self.it, self.h.S, self.y(i))

    def concrete_len(self, it=None):
        return None


class CopyLoop:
    def __init__(self, c):
        self.c = c
        self.h2 = None

    def applies(self, it, env, iterable):
        return isinstance(iterable, YieldSeq)

    def _setup(self, it, env):
        """the freshly constructed Circuit() is re-seated on the abstract heap (it must be empty at this point)"""
        if self.h2 is not None:
            return
        ctx = it.ctx
        new = env['new_circuit']
        f = new.fields
        empty = (isinstance(f['_inputs'], VList) and not f['_inputs'].items and isinstance(f['_outputs'], VList) and not f['_outputs'].items
                 and isinstance(f['_gates'], VDict) and not f['_gates'].d and isinstance(f['_gate_to_users'], VDict) and not f['_gate_to_users'].d
                 and isinstance(f['_blocks'], VDict) and not f['_blocks'].d)
        ctx.check('new-circuit-starts-empty', z3.BoolVal(empty))
        if not empty:
            raise Unsupported('the new circuit is not empty before the copy loop')
        o2, h2 = CM.make_circuit(it, ctx, tag='copy', empty=True)
        x = z3.Const('x!ob', LabelSort)
        ctx.assume(z3.ForAll([x], z3.Not(h2.other_block(x))))          # a new circuit has no blocks
        new.fields = o2.fields
        new.holder = h2
        h2.obj = new
        self.h2 = h2
        self.c.h2 = h2
        it.loop_specs[(CIRC + '::Circuit._emplace_gate', 1)] = CM.UsersLoop(h2, lambda it_, e: (e['operands'], it_.label_term(e['label'])), +1)
        it.loop_specs[(CIRC + '::Circuit.set_inputs', 1)] = AllGatesLoop(h2, None, listed=lambda q: self.c.h1.S.in_cnt(q) > 0)
        it.loop_specs[(CIRC + '::Circuit.set_inputs', 2)] = PrefixCopyLoop(h2)

    def havoc(self, it, env):
        self._setup(it, env)
        _K[0] += 1
        S2 = CM.fresh_state(f'copy{_K[0]}')
        CM.assume_state(it.ctx, S2, wf=True, tag=f'copy{_K[0]}')
        self.h2.S = S2

    def _f(self, it, env, k, l, x, i):
        self._setup(it, env)
        S1, S2, pos = self.c.S1, self.h2.S, self.c.pos
        return [('gates-are-the-yielded-ones', S2.dom(l) == z3.And(S1.dom(l), pos(l) < k)),
                ('definitions-copied', z3.Implies(S2.dom(l), z3.And(S2.typ(l) == S1.typ(l), S2.nops(l) == S1.nops(l), S2.op(l, i) == S1.op(l, i), S2.opc(l, x) == S1.opc(l, x)))),
                ('no-outputs-no-blocks-yet', z3.And(S2.out_n == 0, S2.out_cnt(l) == 0, z3.Not(S2.b_member))),
                ('size', S2.size == k)]

    def inv(self, it, env, k):
        c = it.ctx
        out = self._f(it, env, k, c.fresh(LabelSort, 'lc'), c.fresh(LabelSort, 'xc'), c.fresh(I, 'ic'))
        S2 = self.h2.S.copy()
        S2.rank = self.c.S1.rank
        out += [('WF/' + nm, f) for nm, f in CM.wf_goals(c, S2)]
        return out

    def inv_assume(self, it, env, k):
        l, x = z3.Consts('l!cp x!cp', LabelSort)
        i = z3.Int('i!cp')
        out = []
        for nm, f in self._f(it, env, k, l, x, i):
            conj = list(f.children()) if z3.is_and(f) else [f]
            for part in conj:          # closed conjuncts are assumed as they are (no useless quantifier for the path-feasibility checks)
                used = [v for v in (l, x, i) if any(v.eq(w) for w in z3.z3util.get_vars(part))]
                out.append((nm, z3.ForAll(used, part) if used else part))
        return out


class Copy(CircuitContract):
    qualname = 'Circuit.__copy__'
    name = '__copy__/any-circuit'

    def setup(self, it, ctx):
        c, h1 = self.circuit(it, ctx)
        S1 = h1.S
        self.h1, self.S1 = h1, S1
        l = z3.Const('l!cy', LabelSort)
        i = z3.Int('i!cy')
        _K[0] += 1
        pos = z3.Function(f'pos!{_K[0]}', LabelSort, I)
        y = z3.Function(f'yield!{_K[0]}', I, LabelSort)
        self.pos = lambda q: pos(q)
        n = S1.size
        # contract of top_sort(inverse=True), proved under C20
        ctx.assume(z3.ForAll([i], z3.Implies(z3.And(i >= 0, i < n), z3.And(S1.dom(y(i)), pos(y(i)) == i))))
        ctx.assume(z3.ForAll([l], z3.Implies(S1.dom(l), z3.And(pos(l) >= 0, pos(l) < n, y(pos(l)) == l))))
        ctx.assume(z3.ForAll([l, i], z3.Implies(z3.And(S1.dom(l), i >= 0, i < S1.nops(l)), pos(S1.op(l, i)) < pos(l))))

        # representation fact of tuples: a counted operand occurs at some position (lean: count_pos_witness)
        w = z3.Function(f'opwit!{_K[0]}', LabelSort, LabelSort, I)
        u = z3.Const('u!cy', LabelSort)
        ctx.assume(z3.ForAll([u, l], z3.Implies(S1.opc(u, l) > 0, z3.And(w(u, l) >= 0, w(u, l) < S1.nops(u), S1.op(u, w(u, l)) == l)), patterns=[S1.opc(u, l)]))

        def top_sort(it_, fv, args, kwargs):
            if not kwargs.get('inverse') or getattr(args[0], 'holder', None) is not h1:
                raise Unsupported('top_sort call without contract')
            return YieldSeq(it_, h1, lambda j: y(j), n)
        it.contracts[CIRC + '::Circuit.top_sort'] = top_sort
        self.loop = CopyLoop(self)
        it.loop_specs[(CIRC + '::Circuit.__copy__', 1)] = self.loop
        return [c], {}, {'h1': h1, 'S1': S1, 'c': c, 'loop': self.loop}

    def post(self, it, ctx, result, st):
        h1, S1, loop = st['h1'], st['S1'], st['loop']
        h2 = loop.h2
        yield ('returns-a-new-circuit-object', z3.BoolVal(isinstance(result, Obj) and result is not st['c'] and h2 is not None and getattr(result, 'holder', None) is h2))
        if h2 is None or getattr(result, 'holder', None) is not h2:
            return
        shared = [k for k in result.fields if result.fields[k] is st['c'].fields.get(k)]
        yield ('shares-no-container-with-the-original', z3.BoolVal(not shared))
        yield ('block-member-lists-are-new-lists', z3.BoolVal(not [e for e in h2.events if e[0] == 'block-shares-list']),
               {'witness': 'copied-block-aliases-a-list-of-the-original'})
        CM.sync_fields(it, h2)
        S2 = h2.S.copy()
        S2.rank = S1.rank
        for nm, f in CM.wf_goals(ctx, S2):
            yield ('WF/' + nm, f)
        l, x = ctx.fresh(LabelSort, 'lq'), ctx.fresh(LabelSort, 'xq')
        i = ctx.fresh(I, 'iq')
        yield ('same-gates', z3.And(S2.dom(l) == S1.dom(l), z3.Implies(S1.dom(l), z3.And(S2.typ(l) == S1.typ(l), S2.nops(l) == S1.nops(l), S2.op(l, i) == S1.op(l, i), S2.opc(l, x) == S1.opc(l, x)))))
        yield ('same-inputs-in-order', z3.And(S2.in_n == S1.in_n, z3.Implies(z3.And(i >= 0, i < S1.in_n), S2.in_elem(i) == S1.in_elem(i)), S2.in_cnt(l) == S1.in_cnt(l)))
        yield ('same-outputs-in-order', z3.And(S2.out_n == S1.out_n, z3.Implies(z3.And(i >= 0, i < S1.out_n), S2.out_elem(i) == S1.out_elem(i)), S2.out_cnt(l) == S1.out_cnt(l)))
        # blocks are seen through ONE generic block per map; the fresh circuit tracks the block inserted for the generic block of the original
        yield ('generic-block-copied', z3.Implies(S1.b_member, z3.And(S2.b_member, S2.b_name == S1.b_name, S2.bg(l) == S1.bg(l), S2.bi(l) == S1.bi(l), S2.bo(l) == S1.bo(l))))
        yield ('no-block-invented', z3.Implies(z3.Not(S1.b_member), z3.Not(S2.b_member)))
        yield ('original-untouched', z3.BoolVal(not [e for e in h1.events if e[0] in ('gate-write', 'gate-del', 'users-alias', 'users-del')]))
        yield ('original-state-unchanged', state_eq(ctx, h1.S, S1, ['dom', 'typ', 'nops', 'op', 'opc', 'udom', 'cnt', 'tot', 'in_n', 'in_elem', 'in_cnt', 'out_n', 'out_elem', 'out_cnt', 'b_member', 'bg', 'bi', 'bo', 'size']))

    def on_raise(self, it, ctx, exc, st):
        n = self.exc_name(exc)
        yield ('no-raise', z3.BoolVal(False), {'raised': n, 'witness': 'raises-' + n})

"""C09  Subtraction, division, sqrt, comparison and gadget generators are exact.

P (all operand values, all host circuits, operand aliasing; width-bounded where a ripple loop is unrolled):
   add_sub2, add_sub3, add_sub_two_numbers, add_subtract_with_compare, add_equal (incl. constants that do
   not fit and negative ones), add_plus_one (outputs only when asked), add_if_then_else, add_pairwise_xor,
   add_pairwise_if_then_else; freshness frame and WF for each.
B: vlib/bounded/C09.py (div-mod, sqrt, larger widths, adversarial hosts)."""
import z3

from .. import env
from ..pyvc.prove import Prover
from ..pyvc.values import VList
from .arith_common import HostGadget, val_le, b2i
from .common import new_interp, finish_refuted, canary, STD_TRUSTED, STD_ASSUME, run_bounded

LEVEL = 'other'
SUB = 'cirbo/synthesis/generation/arithmetics/subtraction.py'
EQ = 'cirbo/synthesis/generation/arithmetics/equality.py'
GEN = 'cirbo/synthesis/generation/generation.py'


def spec_sub2(xs, rs, st):
    yield ('a-b', b2i(rs[0]) - 2 * b2i(rs[1]) == b2i(xs[0]) - b2i(xs[1]))


def spec_sub3(xs, rs, st):
    yield ('a-b-c', b2i(rs[0]) - 2 * b2i(rs[1]) == b2i(xs[0]) - b2i(xs[1]) - b2i(xs[2]))


def spec_sub(n, m, be):
    def f(xs, rs, st):
        a, b = xs[:n], xs[n:n + m]
        r = rs
        if be:
            a, b, r = a[::-1], b[::-1], rs[::-1]
        yield ('(a-b) mod 2^n', val_le(r) == (val_le(a) - val_le(b)) % (2 ** n))
        yield ('length', z3.BoolVal(len(rs) == n))
    return f


def spec_subcmp(n, m, be):
    def f(xs, rs, st):
        a, b = xs[:n], xs[n:n + m]
        res, flag = rs[0], rs[1]
        if be:
            a, b, res = a[::-1], b[::-1], res[::-1]
        yield ('low-bits (a-b) mod 2^n', val_le(res[:n]) == (val_le(a) - val_le(b)) % (2 ** n))
        yield ('flag iff a<b', flag == (val_le(a) < val_le(b)))
    return f


def spec_equal(n, num):
    def f(xs, rs, st):
        yield ('x==num', rs[0] == (val_le(xs) == num))
    return f


def spec_plus_one(n, out):
    def f(xs, rs, st):
        yield ('(x+1) mod 2^out', val_le(rs) == (val_le(xs) + 1) % (2 ** out))
    return f


def spec_plus_one_be(n, out):
    def f(xs, rs, st):
        yield ('(x+1) mod 2^out', val_le(rs[::-1]) == (val_le(xs[::-1]) + 1) % (2 ** out))
    return f


def spec_ite(xs, rs, st):
    yield ('ite', rs[0] == z3.If(xs[0], xs[1], xs[2]))


def spec_pxor(n):
    def f(xs, rs, st):
        yield ('pointwise', z3.And([rs[i] == z3.Xor(xs[i], xs[n + i]) for i in range(n)]))
    return f


def spec_pite(n):
    def f(xs, rs, st):
        yield ('pointwise', z3.And([rs[i] == z3.If(xs[i], xs[n + i], xs[2 * n + i]) for i in range(n)]))
    return f


class Single(HostGadget):
    """generators returning a single label (or labels + flag)"""

    def result_labels(self, it, result):
        if isinstance(result, tuple) and len(result) == 2 and not isinstance(result[1], (tuple, VList)):
            return [[it.label_term(x) for x in it.iterate(result[0])], it.label_term(result[1])]
        if isinstance(result, (tuple, VList)):
            return HostGadget.result_labels(self, it, result)
        return [it.label_term(result)]


def contracts(quick):
    cs = [HostGadget(SUB, 'add_sub2', 2, spec_sub2, max_new=2), HostGadget(SUB, 'add_sub3', 3, spec_sub3, max_new=5)]
    W = 3
    for n in range(1, W + 1):
        for m in range(1, W + 1):
            for be in (False, True):
                if be and (n, m) not in ((2, 2), (3, 2), (2, 3)):
                    continue
                tag = f'{n}x{m}/{"be" if be else "le"}'
                cs.append(HostGadget(SUB, 'add_sub_two_numbers', n + m, spec_sub(n, m, be), label='add_sub_two_numbers/' + tag, shape=(n, m), kwargs={'big_endian': be}))
                cs.append(Single(SUB, 'add_subtract_with_compare', n + m, spec_subcmp(n, m, be), label='add_subtract_with_compare/' + tag, shape=(n, m), kwargs={'big_endian': be}))
    for n in (1, 2, 3):
        for num in range(-2, 2 ** n + 2):
            cs.append(Single(EQ, 'add_equal', n, spec_equal(n, num), label=f'add_equal/n{n}/num{num}', arg_builder=lambda sx, num=num: [VList(sx), num]))
    for n in (1, 2):
        for ao in (False, True):
            cs.append(HostGadget(GEN, 'add_plus_one', n, spec_plus_one(n, n + 1), label=f'add_plus_one/in{n}/default-out/add_outputs={ao}',
                                 arg_builder=lambda sx: [VList(sx)], kwargs={'add_outputs': ao}, expect_outputs_unchanged=not ao, inputs_positional=False))
        cs.append(HostGadget(GEN, 'add_plus_one', n, spec_plus_one_be(n, n + 1), label=f'add_plus_one/in{n}/default-out/big-endian',
                             arg_builder=lambda sx: [VList(sx)], kwargs={'big_endian': True}, inputs_positional=False))
    cs.append(Single(GEN, 'add_if_then_else', 3, spec_ite, arg_builder=lambda sx: list(sx)))
    for n in (1, 2, 3):
        cs.append(HostGadget(GEN, 'add_pairwise_xor', 2 * n, spec_pxor(n), label=f'add_pairwise_xor/n{n}', shape=(n, n)))
    for n in (1, 2):
        cs.append(HostGadget(GEN, 'add_pairwise_if_then_else', 3 * n, spec_pite(n), label=f'add_pairwise_if_then_else/n{n}', shape=(n, n, n)))
    return cs


def run(rep):
    quick = env.TIER != 'thorough'
    rep.trusted_base = list(STD_TRUSTED) + ['abstract circuit model vlib/pyvc/circuit_model.py']
    for a in STD_ASSUME:
        rep.assume(a)
    rep.assume('width-bounded P: ripple subtractors / plus-one / equality are proved per width (<=3) for all operand values, hosts and aliasing; larger widths, div-mod and sqrt are bounded-only')
    rep.assume('callee contract used: Circuit.order_inputs/order_outputs permute the list (requested labels first) and change nothing else — bodies verified against it under C02 (c02_order.py) for requests of up to 2 labels')
    it = new_interp()
    pv = Prover(rep, it, 'C09')
    for c in contracts(quick):
        pv.run_contract(c)
    a, b = z3.Bools('a b')
    canary(rep, pv, 'C09/canary/borrow-is-gt', [], b2i(z3.Xor(a, b)) - 2 * b2i(z3.And(a, z3.Not(b))) == b2i(a) - b2i(b))
    refuted = pv.discharge(env.NPROC)
    finish_refuted(rep, pv, refuted)
    run_bounded(rep, 'C09', quick)
    rep.extra['explanation'] = 'Gadgets and width-bounded ripple structures proved on an abstract host circuit from the real source; div-mod/sqrt and larger widths: bounded stand-in.'

"""Contracts for generator functions that add gates to an arbitrary host circuit (C07/C08/C09/C13).

The host is an abstract well-formed circuit (vlib/pyvc/circuit_model); operands are arbitrary existing
gates (possibly aliasing each other); every gate the generator adds goes through the REAL
add_gate_from_tt / emplace_gate / add_gate / validation / _add_user code, symbolically executed.
The ghost valuation V assigns each fresh gate the value of its equation, so the returned labels have
terms over the operand values and the arithmetic claim is one SMT obligation per path."""
import z3

from ..pyvc.values import Sym, VList, LabelSort, GT, Obj, Unsupported
from ..pyvc.prove import Contract
from ..pyvc.models import HavocLocals
from ..pyvc import circuit_model as CM
from ..spec import ops as S

I = z3.IntSort()
UTILS = 'cirbo/synthesis/generation/arithmetics/_utils.py'
GEN = 'cirbo/synthesis/generation/generation.py'
AIG_FORBIDDEN = ('XOR', 'NXOR')


def install_label_loops(it):
    """the two `while circuit.has_gate(name): name = 'new_' + uuid4().hex` loops: trivial invariant"""
    fresh = lambda it_: Sym(it_.ctx.fresh(LabelSort, 'rndlabel'))
    it.loop_specs[(UTILS + '::generate_random_label', 1)] = HavocLocals({'_name': fresh})
    it.loop_specs[(GEN + '::_get_new_label', 1)] = HavocLocals({'ans': fresh})


def b2i(b):
    return z3.If(b, 1, 0)


def val_le(bits):
    """little-endian value of a list of z3 Bool terms"""
    return z3.Sum([b2i(b) * (2 ** i) for i, b in enumerate(bits)]) if bits else z3.IntVal(0)


class HostGadget(Contract):
    """f(circuit, <operand labels>, **kw) on an arbitrary WF host circuit.
    spec(xs, rs, st) -> list of (clause, z3 Bool) over operand values xs and result values rs (z3 Bools)."""

    def __init__(self, relpath, qualname, n_in, spec, label=None, kwargs=None, shape=None, basis_aig=False,
                 max_new=None, arg_builder=None, result_labels=None, expect_outputs_unchanged=True, distinct_inputs=False, inputs_positional=True):
        self.relpath, self.qualname = relpath, qualname
        self.n_in, self.spec = n_in, spec
        self.name = label or qualname
        self.kw = kwargs or {}
        self.shape = shape            # None: one list of n_in labels; or tuple of list lengths
        self.basis_aig = basis_aig
        self.max_new = max_new
        self.arg_builder = arg_builder
        self.expect_outputs_unchanged = expect_outputs_unchanged
        self.distinct_inputs = distinct_inputs
        self.inputs_positional = inputs_positional

    def setup(self, it, ctx):
        install_label_loops(it)
        CM.install_user_contracts(it)
        CM.install_order_contracts(it)
        c, h = CM.make_circuit(it, ctx, tag='host')
        S0 = h.S
        xs = [z3.Const(f'x{i}', LabelSort) for i in range(self.n_in)]
        for x in xs:
            ctx.assume(S0.dom(x))
        if self.distinct_inputs and len(xs) > 1:
            ctx.assume(z3.Distinct(*xs))
        l = z3.Const('L!rk', LabelSort)
        ctx.assume(z3.ForAll([l], S0.rank(l) >= 0))
        self._xs = xs
        sx = [Sym(x) for x in xs]
        if self.arg_builder is not None:
            args = [c] + self.arg_builder(sx)
        elif self.shape is None:
            args = [c, VList(sx)]
        else:
            args, k = [c], 0
            for n in self.shape:
                args.append(VList(sx[k:k + n]))
                k += n
        kwargs = dict(self.kw)
        return args, kwargs, {'h': h, 'xs': xs, 'S0': S0}

    def background(self, it):
        # precondition: operand labels are none of the generators' internal sentinel strings (_PLACEHOLDER_STR_, inf_label)
        return [x != c for x in getattr(self, '_xs', []) for k, c in it.str_labels.items() if k in ('_PLACEHOLDER_STR_', 'inf_label')]

    def result_labels(self, it, result):
        out = []
        for r in it.iterate(result):
            if isinstance(r, (tuple, VList)):
                out.append([it.label_term(x) for x in it.iterate(r)])
            else:
                out.append(it.label_term(r))
        return out

    def post(self, it, ctx, result, st):
        h, S0 = st['h'], st['S0']
        CM.sync_fields(it, h)
        S1 = h.S
        V = h.V
        writes = [e for e in h.events if e[0] == 'gate-write']
        defined = [e for e in h.events if e[0] == 'gate-defined']
        yield ('frame/no-gate-deleted', z3.BoolVal(not any(e[0] == 'gate-del' for e in h.events)))
        # every write creates a gate that did not exist (existing gates keep label, type, operands)
        for j, e in enumerate(writes):
            yield (f'frame/write{j}-is-fresh', z3.Not(e[2]))
        yield ('frame/every-new-gate-has-an-equation', z3.BoolVal(len(defined) == len(writes)))
        l, x = ctx.fresh(LabelSort, 'lfr'), ctx.fresh(LabelSort, 'xfr')
        i = ctx.fresh(I, 'ifr')
        yield ('frame/old-gates-unchanged', z3.Implies(S0.dom(l), z3.And(S1.dom(l), S1.typ(l) == S0.typ(l), S1.nops(l) == S0.nops(l),
                                                                         S1.op(l, i) == S0.op(l, i), S1.opc(l, x) == S0.opc(l, x))))
        if self.expect_outputs_unchanged:
            yield ('frame/outputs-unchanged', z3.And(S1.out_n == S0.out_n, S1.out_elem(i) == S0.out_elem(i), S1.out_cnt(l) == S0.out_cnt(l)))
        if self.inputs_positional:
            yield ('frame/inputs-unchanged', z3.And(S1.in_n == S0.in_n, S1.in_elem(i) == S0.in_elem(i), S1.in_cnt(l) == S0.in_cnt(l)))
        else:       # the generator may reorder the host's inputs (documented side effect of add_plus_one): same multiset
            yield ('frame/inputs-same-multiset', z3.And(S1.in_n == S0.in_n, S1.in_cnt(l) == S0.in_cnt(l)))
        # ghost rank for the new circuit: fresh gates above their operands, in creation order
        rank = S0.rank
        for e in defined:
            kt, n = e[1], e[3]
            mx = z3.IntVal(0)
            for j in range(n):
                rj = rank(S1.op(kt, z3.IntVal(j)))
                mx = z3.If(rj > mx, rj, mx)
            rank = (lambda l_, kt=kt, mx=mx, prev=rank: z3.If(l_ == kt, mx + 1, prev(l_)))
        S1r = S1.copy()
        S1r.rank = rank
        for nm, f in CM.wf_goals(ctx, S1r):
            yield ('WF/' + nm, f)
        if self.basis_aig:
            for j, e in enumerate(defined):
                yield (f'basis/new-gate{j}-in-AIG', z3.BoolVal(e[2] not in AIG_FORBIDDEN), {'witness': 'basis'})
        if self.max_new is not None:
            yield ('size/new-gates-bound', z3.BoolVal(len(writes) <= self.max_new))
        res = self.result_labels(it, result)
        xs = [V(x) for x in st['xs']]

        def vals(r):
            return [V(t) for t in r] if isinstance(r, list) else V(r)
        rs = [vals(r) for r in res]
        for r in res:
            for t in (r if isinstance(r, list) else [r]):
                yield ('result/labels-are-gates', S1.dom(t))
        for clause, g in self.spec(xs, rs, st):
            yield ('value/' + clause, g, {'witness': 'value'})

    def on_raise(self, it, ctx, exc, st):
        name = exc.cls.name if isinstance(exc, Obj) else repr(exc)
        if name == 'CircuitValidationError':
            # only possible cause with operands in the circuit: a drawn label collides — excluded by the label loops,
            # so this path must be infeasible
            return [('no-raise', z3.BoolVal(False), {'raised': name, 'witness': 'raises-' + name})]
        return [('no-raise', z3.BoolVal(False), {'raised': name, 'witness': 'raises-' + name})]

"""C06  Exact synthesis is sound and complete for the requested size and basis.

P (clause-family lemmas over all valuations, generated from the real CircuitFinderSat methods):
   _add_exactly_one_of encodes "exactly one literal is true" (1..5 literals, arbitrary literals over distinct
   variables); fix_gate(gate_type=t) forces the four gate-function variables to the table of OP(t) for every
   binary gate type; fix_gate with predecessors / forbid_wire add only clauses over the documented variables.
B: soundness and completeness against brute force incl. constraints (vlib/bounded/C06.py); solver = z3-backed shim."""
import itertools
import z3

from .. import env
from ..pyvc.values import Sym, VList, Obj, Native, Unsupported
from ..pyvc.interp import Model
from ..pyvc.models import Valuation, CnfView
from ..pyvc.prove import Prover, Contract
from ..pyvc import theory
from ..spec import ops as S
from .common import new_interp, finish_refuted, canary, STD_TRUSTED, STD_ASSUME, run_bounded

LEVEL = 'other'
CS = 'cirbo/synthesis/circuit_search.py'


class Pool(Model):
    """IDPool: a fresh positive integer per distinct key (injective), stable on repeated keys"""

    def __init__(self):
        self.d = {}

    def m_getattr(self, it, name):
        if name == 'id':
            def id_(key):
                if not isinstance(key, str):
                    raise Unsupported('IDPool key')
                return self.d.setdefault(key, len(self.d) + 1)
            return Native('IDPool.id', id_)
        raise Unsupported('IDPool.' + name)


def finder(it, n_in, n_gates, n_out=1):
    """a CircuitFinderSat built by its REAL constructor (so that fields added by future versions exist), with the
    CNF container and the variable pool replaced by their models"""
    m = it.load_module('cirbo.synthesis.circuit_search')
    tm = it.load_module('cirbo.core.truth_table')
    cls = m.env['CircuitFinderSat']
    table = VList([VList([False] * (1 << n_in)) for _ in range(n_out)])
    model = it.call(tm.env['TruthTableModel'], [table], {})
    o = it.call(cls, [model, n_gates], {'basis': 'FULL'})
    val = Valuation()
    sat0 = z3.Bool('sat0')
    o.fields['_cnf'] = CnfView(val, sat0)
    o.fields['_vpool'] = Pool()
    return o, val, sat0


class ExactlyOne(Contract):
    relpath, qualname = CS, 'CircuitFinderSat._add_exactly_one_of'

    def __init__(self, n):
        self.n = n
        self.name = f'_add_exactly_one_of/n{n}'

    def setup(self, it, ctx):
        o, val, sat0 = finder(it, 2, 2)
        lits = [z3.Int(f'l{i}') for i in range(self.n)]
        for l in lits:
            ctx.assume(l != 0)
        for a, b in itertools.combinations(lits, 2):
            ctx.assume(z3.And(a != b, a != -b))
        return [o, VList([Sym(l) for l in lits])], {}, {'o': o, 'val': val, 'sat0': sat0, 'lits': lits}

    def post(self, it, ctx, result, st):
        val = st['val']
        tv = [val.lit(it, Sym(l)) for l in st['lits']]
        exactly = z3.And(z3.Or(tv) if tv else z3.BoolVal(False), z3.And([z3.Not(z3.And(a, b)) for a, b in itertools.combinations(tv, 2)]))
        yield ('exactly-one', st['o'].fields['_cnf'].sat == z3.And(st['sat0'], exactly))


class FixGateType(Contract):
    relpath, qualname = CS, 'CircuitFinderSat.fix_gate'
    frame_fields = (('CircuitFinderSat', '_need_check_db'),)

    def __init__(self, t):
        self.t = t
        self.name = f'fix_gate/gate_type={t}'

    def setup(self, it, ctx):
        o, val, sat0 = finder(it, 2, 2)
        gm = it.load_module('cirbo.core.circuit.gate')
        return [o, 3], {'first_predecessor': 0, 'second_predecessor': 2, 'gate_type': gm.env[self.t]}, {'o': o, 'val': val, 'sat0': sat0}

    def post(self, it, ctx, result, st):
        o, val = st['o'], st['val']
        pool = o.fields['_vpool'].d
        want = [st['sat0'], val.f(pool['s_3_0_2'])]
        for p in (0, 1):
            for q in (0, 1):
                want.append(val.f(pool[f'f_3_{p}_{q}']) == theory.OPz(self.t, [z3.BoolVal(bool(p)), z3.BoolVal(bool(q))]))
        yield ('forces-table-of-OP-and-wires', o.fields['_cnf'].sat == z3.And(want), {'witness': 'fix-gate-type'})
        yield ('db-shortcut-disabled', z3.BoolVal(o.fields['_need_check_db'] is False))


class FixGatePred(Contract):
    """fix_gate with one predecessor only: every pair of predecessors not containing it is excluded, nothing else"""
    relpath, qualname = CS, 'CircuitFinderSat.fix_gate'
    frame_fields = (('CircuitFinderSat', '_need_check_db'),)

    def __init__(self, which):
        self.which = which
        self.name = f'fix_gate/{which}-only'

    def setup(self, it, ctx):
        o, val, sat0 = finder(it, 2, 2)
        return [o, 3], {self.which: 1}, {'o': o, 'val': val, 'sat0': sat0}

    def post(self, it, ctx, result, st):
        o, val = st['o'], st['val']
        pool = o.fields['_vpool'].d
        excl = []
        for a, b in itertools.combinations(range(3), 2):
            if a != 1 and b != 1:
                excl.append(z3.Not(val.f(pool[f's_3_{a}_{b}'])))
        yield ('excludes-exactly-pairs-without-it', o.fields['_cnf'].sat == z3.And([st['sat0']] + excl), {'witness': self.which + '-only'})
        yield ('db-shortcut-disabled', z3.BoolVal(o.fields['_need_check_db'] is False))


class ForbidWire(Contract):
    relpath, qualname, name = CS, 'CircuitFinderSat.forbid_wire', 'forbid_wire/1->3'
    frame_fields = (('CircuitFinderSat', '_need_check_db'),)

    def setup(self, it, ctx):
        o, val, sat0 = finder(it, 2, 2)
        return [o, 1, 3], {}, {'o': o, 'val': val, 'sat0': sat0}

    def post(self, it, ctx, result, st):
        o, val = st['o'], st['val']
        pool = o.fields['_vpool'].d
        excl = [z3.Not(val.f(pool[f's_3_{min(a, 1)}_{max(a, 1)}'])) for a in range(3) if a != 1]
        yield ('excludes-exactly-pairs-with-the-wire', o.fields['_cnf'].sat == z3.And([st['sat0']] + excl))
        yield ('db-shortcut-disabled', z3.BoolVal(o.fields['_need_check_db'] is False))


def run(rep):
    quick = env.TIER != 'thorough'
    rep.trusted_base = list(STD_TRUSTED)
    for a in STD_ASSUME:
        rep.assume(a)
    rep.assume('IDPool.id is injective on keys (python-sat absent; modelled); SAT solver sound and complete (z3-backed shim in the bounded layer)')
    rep.assume('the global theorem (a model exists iff a circuit exists) and _init_default_cnf_formula as a whole are covered by the bounded stand-in (brute force over small shapes), not by P')
    it = new_interp()
    pv = Prover(rep, it, 'C06')
    for n in range(1, 6):
        pv.run_contract(ExactlyOne(n))
    for t in S.GATE_TYPES:
        if t in S.NARY or t in S.BINARY or t in S.CONST:
            pv.run_contract(FixGateType(t))
    pv.run_contract(FixGatePred('first_predecessor'))
    pv.run_contract(FixGatePred('second_predecessor'))
    pv.run_contract(ForbidWire())
    a, b = z3.Bools('a b')
    canary(rep, pv, 'C06/canary/at-most-one-is-exactly-one', [], z3.Not(z3.And(a, b)) == z3.And(z3.Or(a, b), z3.Not(z3.And(a, b))))
    refuted = pv.discharge(env.NPROC)
    finish_refuted(rep, pv, refuted)
    run_bounded(rep, 'C06', quick)
    rep.extra['explanation'] = 'clause-family lemmas proved from the real methods for all valuations; global soundness/completeness: bounded stand-in against brute force.'

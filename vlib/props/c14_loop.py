"""C14  Circuit.into_bench as a whole, on an ARBITRARY well-formed circuit (any number of gates): the loop
    old_gates = copy.copy(self.gates);  for cur_gate in old_gates.values(): convert_gate(cur_gate, self)
is cut by an invariant and convert_gate is used through its CONTRACT (rule R4), whose clauses are the ones proved
per gate type by C14/convert_gate/<type>/* (frame, bench types, WF, local equation, blocks) plus rank normal form.

Invariant before visiting position k of the snapshot enumeration y(0..n0-1) (S0 = state at the snapshot):
  J1 WF(S) and the rank normal form (inputs rank 0 / no operands, other gates rank >= 1)
  J2 every snapshot gate still exists; the gates at positions >= k are exactly as in the snapshot
  J3 snapshot gates at positions < k and all gates that are not snapshot gates (helpers) have bench types
  J4 inputs and outputs are those of the snapshot (positions and counts)
  J5 for the fixed arbitrary valuation V: if every current gate obeys its current equation then every snapshot gate
     obeys its snapshot equation   (eq_S(l) = "V satisfies the equation of l in state S": an abstract predicate that
     depends only on the definition of l — congruence axiom — and for which the callee contract gives
     eq'(g) and eq'(helper) imply eq(g): the proved local-equation clause)
Post: WF, only bench types, snapshot gates kept, inputs/outputs kept, J5 for the final state. Rule R2 (DAG induction)
turns J5 into "the truth table is unchanged"."""
import z3

from ..pyvc.values import Sym, LabelSort, GT, Obj, PyRaise, Unsupported, Native
from ..pyvc.interp import Model, _simp
from ..pyvc import circuit_model as CM
from ..spec import ops as S
from .C02 import CircuitContract
from .C14 import arity_pre

I = z3.IntSort()
B = z3.BoolSort()
CIRC = 'cirbo/core/circuit/circuit.py'
CONV = 'cirbo/core/circuit/converters.py'
_K = [0]


def bench(t):
    return z3.Or([t == GT[b] for b in S.BENCH_TYPES])


def rank_nf(Sx, l):
    return z3.And(Sx.rank(l) >= 0,
                  z3.Implies(z3.And(Sx.dom(l), Sx.typ(l) == GT['INPUT']), z3.And(Sx.rank(l) == 0, Sx.nops(l) == 0)),
                  z3.Implies(z3.And(Sx.dom(l), Sx.typ(l) != GT['INPUT']), Sx.rank(l) >= 1))


def new_state(ctx, tag):
    _K[0] += 1
    Sx = CM.fresh_state(f'{tag}{_K[0]}')
    eqf = z3.Function(f'eq@{tag}{_K[0]}', LabelSort, B)
    Sx.eqf = lambda l: eqf(l)
    return Sx


def copy_state(Sx):
    S2 = Sx.copy()
    S2.eqf = Sx.eqf
    return S2


class SnapshotValues:
    """old_gates.values() of the snapshot dict: an arbitrary enumeration y(0..n-1) of the snapshot keys, each once
    (library axiom of dict iteration); the elements are the snapshot Gate objects"""
    prefix = []

    def __init__(self, it, S0):
        self.it, self.S0 = it, S0
        _K[0] += 1
        self.y = z3.Function(f'snapenum!{_K[0]}', I, LabelSort)
        self.pos = z3.Function(f'snappos!{_K[0]}', LabelSort, I)
        i, l = z3.Int('i!se'), z3.Const('l!se', LabelSort)
        ctx = it.ctx
        ctx.assume(z3.ForAll([i], z3.Implies(z3.And(i >= 0, i < S0.size), z3.And(S0.dom(self.y(i)), self.pos(self.y(i)) == i))))
        ctx.assume(z3.ForAll([l], z3.Implies(S0.dom(l), z3.And(self.pos(l) >= 0, self.pos(l) < S0.size, self.y(self.pos(l)) == l))))

    @property
    def n(self):
        return self.S0.size

    def elem(self, k):
        return CM.make_gate_obj(self.it, self.S0, self.y(k))

    def concrete_len(self, it=None):
        return None


class GatesSnapshot(Model):
    def __init__(self, it, S0):
        self.values_ = SnapshotValues(it, S0)

    def m_getattr(self, it, name):
        if name == 'values':
            return Native('snapshot.values', lambda: self.values_)
        raise Unsupported('snapshot of the gate map: .' + name)


def convert_gate_contract(c):
    """callee contract of convert_gate(gate_object, circuit) (clauses: C14/convert_gate/<type>/*)"""
    def handler(it, fv, args, kwargs):
        gobj, circ = args[0], args[1]
        h = circ.holder
        ctx = it.ctx
        S1 = h.S
        g = it.label_term(gobj.fields['_label'])
        ops = gobj.fields['_operands']
        i, x, l = ctx.fresh(I, 'ic'), ctx.fresh(LabelSort, 'xc'), ctx.fresh(LabelSort, 'lc')
        # --- precondition (checked at the call site)
        ctx.check('convert_gate/pre/gate-exists', S1.dom(g))
        ctx.check('convert_gate/pre/object-is-the-current-gate', z3.And(S1.typ(g) == it.gtype_term(gobj.fields['_gate_type']), S1.nops(g) == ops.n,
                                                                        z3.Implies(z3.And(i >= 0, i < ops.n), S1.op(g, i) == ops.elem(i)), S1.opc(g, x) == ops.count(x)))
        ctx.check('convert_gate/pre/arity', arity_pre(S1, g))
        ctx.check('convert_gate/pre/rank-normal-form', rank_nf(S1, l))
        for nm, f in CM.wf_goals(ctx, S1):
            ctx.check('convert_gate/pre/WF/' + nm, f)
        # --- exceptional exits allowed by the callee contract
        # (the callee contract says: GateDoesntExistError only for a constant in a circuit without inputs — it does not
        #  promise that it is raised then; CircuitValidationError only when the helper label collides)
        is_const = z3.Or(S1.typ(g) == GT['ALWAYS_TRUE'], S1.typ(g) == GT['ALWAYS_FALSE'])
        if ctx.choose(ctx.fresh(B, 'raises_no_input')):
            ctx.assume(z3.And(is_const, S1.in_n == 0))
            m = it.load_module('cirbo.core.circuit.exceptions')
            raise PyRaise(it.instantiate(m.env['GateDoesntExistError'], [], {}))
        if ctx.choose(ctx.fresh(B, 'helper_label_collides')):
            m = it.load_module('cirbo.core.circuit.exceptions')
            raise PyRaise(it.instantiate(m.env['CircuitValidationError'], [], {}))
        # --- postcondition (assumed)
        S2 = new_state(ctx, 'cv')
        CM.assume_state(ctx, S2, wf=True, tag=f'cv{_K[0]}')
        w = ctx.fresh(LabelSort, 'helper')
        hasw = ctx.fresh(B, 'hashelper')
        L, X = z3.Consts('L!cv X!cv', LabelSort)
        J = z3.Int('J!cv')
        other = z3.And(L != g, z3.Or(z3.Not(hasw), L != w))
        ctx.assume(z3.Not(S1.dom(w)))
        ctx.assume(z3.ForAll([L], rank_nf(S2, L)))
        ctx.assume(z3.ForAll([L], S2.dom(L) == z3.Or(S1.dom(L), z3.And(hasw, L == w))))
        ctx.assume(z3.ForAll([L, X, J], z3.Implies(other, z3.And(S2.typ(L) == S1.typ(L), S2.nops(L) == S1.nops(L), S2.op(L, J) == S1.op(L, J), S2.opc(L, X) == S1.opc(L, X)))))
        ctx.assume(z3.And(bench(S2.typ(g)), z3.Implies(hasw, bench(S2.typ(w)))))
        ctx.assume(z3.And(S2.in_n == S1.in_n, S2.out_n == S1.out_n, S2.size == S1.size + z3.If(hasw, 1, 0)))
        ctx.assume(z3.ForAll([L, J], z3.And(S2.in_elem(J) == S1.in_elem(J), S2.out_elem(J) == S1.out_elem(J), S2.in_cnt(L) == S1.in_cnt(L), S2.out_cnt(L) == S1.out_cnt(L))))
        # the abstract equation predicate: unchanged for untouched gates (congruence), local equation for g
        ctx.assume(z3.ForAll([L], z3.Implies(other, S2.eqf(L) == S1.eqf(L))))
        ctx.assume(z3.Implies(z3.And(S2.eqf(g), z3.Implies(hasw, S2.eqf(w))), S1.eqf(g)))
        ctx.assume(z3.And(S2.b_member == S1.b_member, S2.b_name == S1.b_name))
        ctx.assume(z3.ForAll([L], z3.Implies(z3.Or(z3.Not(hasw), L != w), z3.And(S2.bg(L) == S1.bg(L), S2.bi(L) == S1.bi(L), S2.bo(L) == S1.bo(L)))))
        ctx.assume(z3.Implies(z3.And(hasw, S2.b_member), (S2.bg(w) > 0) == (S1.bg(g) > 0)))
        h.S = S2
        h.events.append(('convert_gate', g))
        return None
    return handler


class IntoBenchLoop:
    def __init__(self, c):
        self.c = c

    def applies(self, it, env, iterable):
        self.seq = iterable
        return isinstance(iterable, SnapshotValues)

    def havoc(self, it, env):
        ctx = it.ctx
        S2 = new_state(ctx, 'ib')
        CM.assume_state(ctx, S2, wf=True, tag=f'ib{_K[0]}')
        self.c.h.S = S2

    def _f(self, it, env, k, l, x, i):
        S0, Sk, pos = self.c.S0, self.c.h.S, self.seq.pos
        unv = z3.And(S0.dom(l), pos(l) >= k)
        return [('J1/rank-normal-form', rank_nf(Sk, l)),
                ('J2/snapshot-gates-kept', z3.Implies(S0.dom(l), Sk.dom(l))),
                ('J2/unvisited-gates-as-in-snapshot', z3.Implies(unv, z3.And(Sk.typ(l) == S0.typ(l), Sk.nops(l) == S0.nops(l), Sk.op(l, i) == S0.op(l, i), Sk.opc(l, x) == S0.opc(l, x),
                                                                             Sk.eqf(l) == S0.eqf(l)))),
                ('J3/visited-and-helper-gates-have-bench-types', z3.Implies(z3.And(Sk.dom(l), z3.Not(unv)), bench(Sk.typ(l)))),
                ('J4/inputs-outputs-kept', z3.And(Sk.in_n == S0.in_n, Sk.out_n == S0.out_n, Sk.in_elem(i) == S0.in_elem(i), Sk.out_elem(i) == S0.out_elem(i),
                                                  Sk.in_cnt(l) == S0.in_cnt(l), Sk.out_cnt(l) == S0.out_cnt(l)))]

    def j5(self, it):
        S0, Sk = self.c.S0, self.c.h.S
        u, a = z3.Const('u!j5', LabelSort), z3.Const('a!j5', LabelSort)
        return z3.ForAll([u], z3.Implies(z3.And(S0.dom(u), z3.ForAll([a], z3.Implies(Sk.dom(a), Sk.eqf(a)))), S0.eqf(u)))

    def inv(self, it, env, k):
        c = it.ctx
        out = self._f(it, env, k, c.fresh(LabelSort, 'lj'), c.fresh(LabelSort, 'xj'), c.fresh(I, 'ij'))
        out += [('WF/' + nm, f) for nm, f in CM.wf_goals(c, self.c.h.S)]
        out.append(('J5/current-equations-imply-snapshot-equations', self.j5(it)))
        return out

    def inv_assume(self, it, env, k):
        l, x = z3.Consts('l!ib x!ib', LabelSort)
        i = z3.Int('i!ib')
        return [(nm, z3.ForAll([l, x, i], f)) for nm, f in self._f(it, env, k, l, x, i)] + [('J5', self.j5(it))]


class IntoBench(CircuitContract):
    qualname = 'Circuit.into_bench'
    name = 'into_bench/any-circuit'

    def setup(self, it, ctx):
        c, h = self.circuit(it, ctx)
        S0 = h.S.copy()
        _K[0] += 1
        eqf = z3.Function(f'eq@S0!{_K[0]}', LabelSort, B)
        S0.eqf = lambda l: eqf(l)
        h.S = S0
        self.S0, self.h = S0, h
        l = z3.Const('l!ibpre', LabelSort)
        ctx.assume(z3.ForAll([l], rank_nf(S0, l)))                          # any DAG has a rank in normal form
        ctx.assume(z3.ForAll([l], z3.Implies(S0.dom(l), arity_pre(S0, l))))    # ARITY precondition on every gate
        h.obj.fields['_gates'].m_copy = lambda it_: GatesSnapshot(it_, h.S)
        self.loop = IntoBenchLoop(self)
        it.loop_specs[(CIRC + '::Circuit.into_bench', 1)] = self.loop
        it.contracts[CONV + '::convert_gate'] = convert_gate_contract(self)
        return [c], {}, {'h': h, 'S0': S0, 'c': c}

    def post(self, it, ctx, result, st):
        h, S0 = st['h'], st['S0']
        S1 = h.S
        yield ('returns-self', z3.BoolVal(result is st['c']))
        for nm, f in CM.wf_goals(ctx, S1):
            yield ('WF/' + nm, f)
        l = ctx.fresh(LabelSort, 'lp')
        i = ctx.fresh(I, 'ip')
        yield ('only-bench-types-remain', z3.Implies(S1.dom(l), bench(S1.typ(l))))
        yield ('original-gates-kept', z3.Implies(S0.dom(l), S1.dom(l)))
        yield ('inputs-outputs-kept', z3.And(S1.in_n == S0.in_n, S1.out_n == S0.out_n, S1.in_elem(i) == S0.in_elem(i), S1.out_elem(i) == S0.out_elem(i),
                                             S1.in_cnt(l) == S0.in_cnt(l), S1.out_cnt(l) == S0.out_cnt(l)))
        u, a = z3.Const('u!p', LabelSort), z3.Const('a!p', LabelSort)
        yield ('new-equations-imply-original-equations', z3.Implies(z3.And(S0.dom(l), z3.ForAll([a], z3.Implies(S1.dom(a), S1.eqf(a)))), S0.eqf(l)))

    def on_raise(self, it, ctx, exc, st):
        n = self.exc_name(exc)
        S0 = st['S0']
        l = z3.Const('l!ibr', LabelSort)
        if n == 'GateDoesntExistError':
            # documented: converting a constant needs at least one input
            yield ('raise/only-for-a-constant-in-a-circuit-without-inputs',
                   z3.And(S0.in_n == 0, z3.Exists([l], z3.And(S0.dom(l), z3.Or(S0.typ(l) == GT['ALWAYS_TRUE'], S0.typ(l) == GT['ALWAYS_FALSE'])))), {'raised': n})
        elif n == 'CircuitValidationError':
            yield ('raise/helper-label-collision-only', z3.BoolVal(True), {'raised': n})
        else:
            yield ('no-other-raise', z3.BoolVal(False), {'raised': n, 'witness': 'raises-' + n})

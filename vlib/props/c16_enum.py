"""C16  _enumerate_gates(circuit) on an ARBITRARY well-formed circuit: the identifiers the codec hands out.

    result = {};  for input_label in circuit.inputs: result[input_label] = len(result)
    for gate_ in circuit.top_sort(inverse=True):  (skip INPUT)  result[gate_.label] = len(result)

Contract (WF, INPUT gates without operands):
  E1  every gate of the circuit gets an identifier, nothing else does;
  E2  the i-th input gets identifier i (the decoder re-creates the inputs as gate_0 .. gate_{n-1});
  E3  identifiers are pairwise different;
  E4  every non-input gate has a larger identifier than each of its operands (the decoder must already know them), and an
      identifier >= the number of inputs;
  E5  the dictionary has as many keys as identifiers were handed out, each new key receiving the current length (so that the
      insertion order, which _encode_circuit_body iterates, is the identifier order: E6 the i-th key has identifier i, E7 every
      identifier is below the number of keys);  the circuit is untouched.
Loop 1 (inputs) and loop 2 (top_sort through its contract, proved under C20: every gate once, operands first) by invariants; the
number of non-input gates among the first j yielded gates is the ghost counting function c (c(0) = 0, c(j+1) = c(j) + [y(j) is
not an input]); its monotonicity / strictness are the Lean lemmas cnt_mono / cnt_strict (lean/Background.lean)."""
import z3

from ..pyvc.values import Sym, LabelSort, GT, Obj, Unsupported, VDict, Native
from ..pyvc.interp import Model, _simp
from ..pyvc import circuit_model as CM
from .C02 import CircuitContract, CIRC
from .c02_copy import YieldSeq

ENC = 'cirbo/circuits_db/circuits_encoding.py'
KEY = ENC + '::_enumerate_gates'
I = z3.IntSort()
B = z3.BoolSort()
_K = [0]


class NumMap(Model):
    """dict label -> int in functional form: dom, val, n = number of keys"""

    def __init__(self, dom, val, n, key_at=None):
        self.dom, self.val, self.n = dom, val, n
        self.key_at = key_at or (lambda i: z3.Const('nokey', LabelSort))      # insertion order: the i-th key
        self.not_len_at_insert = False          # ghost: some new key was stored with a value other than the current length

    def m_len(self, it):
        return Sym(self.n)

    def m_contains(self, it, k):
        return _simp(self.dom(it.label_term(k)))

    def m_getitem(self, it, k):
        kt = it.label_term(k)
        if not it.ctx.choose(_simp(self.dom(kt))):
            it.raise_('KeyError', 'label')
        return Sym(self.val(kt))

    def m_setitem(self, it, k, v):
        kt, vt = it.label_term(k), it.int_term(v)
        od, ov = self.dom, self.val
        if it.ctx.choose(_simp(od(kt))):
            self.val = lambda l: z3.If(l == kt, vt, ov(l))
            return
        if not z3.is_true(z3.simplify(vt == self.n)):
            self.not_len_at_insert = True
        self.dom = lambda l: z3.Or(l == kt, od(l))
        self.val = lambda l: z3.If(l == kt, vt, ov(l))
        ok, n0 = self.key_at, self.n
        self.key_at = lambda i: z3.If(i == n0, kt, ok(i))
        self.n = self.n + 1

    def m_getattr(self, it, name):
        if name == 'keys':
            return Native('NumMap.keys', lambda: KeySeq(self))
        raise Unsupported('identifier map .' + name)


class KeySeq(Model):
    """d.keys(): the keys in insertion order (symbolic length); iteration only under a loop invariant"""
    prefix = []

    def __init__(self, m):
        self.m = m
        self.n = m.n

    def elem(self, i):
        return Sym(self.m.key_at(i))

    def concrete_len(self, it=None):
        return None

    def m_len(self, it):
        return Sym(self.n)


def view(it, env):
    r = env['result']
    if isinstance(r, VDict):
        if r.d:
            raise Unsupported('result is not empty before the first loop')
        return (lambda l: z3.BoolVal(False)), (lambda l: z3.IntVal(0)), z3.IntVal(0), (lambda i: z3.Const('nokey', LabelSort))
    return r.dom, r.val, r.n, r.key_at


def fresh_map(ctx):
    _K[0] += 1
    d = z3.Function(f'num_dom!{_K[0]}', LabelSort, B)
    v = z3.Function(f'num_val!{_K[0]}', LabelSort, I)
    ka = z3.Function(f'num_key!{_K[0]}', I, LabelSort)
    return NumMap(lambda l: d(l), lambda l: v(l), ctx.fresh(I, 'nkeys'), lambda i: ka(i))


class InputsLoop:
    def __init__(self, c):
        self.c = c

    def applies(self, it, env, iterable):
        return True

    def havoc(self, it, env):
        env['result'] = fresh_map(it.ctx)

    def _f(self, it, env, k, l, i):
        S0 = self.c.S0
        dom, val, n, key_at = view(it, env)
        return [('length', n == k),
                ('key-sequence', z3.Implies(z3.And(i >= 0, i < n), z3.And(dom(key_at(i)), val(key_at(i)) == i))),
                ('seen-inputs-numbered', z3.Implies(z3.And(i >= 0, i < k), z3.And(dom(S0.in_elem(i)), val(S0.in_elem(i)) == i))),
                ('only-seen-inputs-numbered', z3.Implies(dom(l), z3.And(S0.in_cnt(l) > 0, val(l) >= 0, val(l) < k, S0.in_elem(val(l)) == l)))]

    def inv(self, it, env, k):
        return self._f(it, env, k, it.ctx.fresh(LabelSort, 'le1'), it.ctx.fresh(I, 'ie1'))

    def inv_assume(self, it, env, k):
        l, i = z3.Const('l!e1', LabelSort), z3.Int('i!e1')
        return [(nm, z3.ForAll([l, i], f) if nm != 'length' else f) for nm, f in self._f(it, env, k, l, i)]


class GatesLoop:
    def __init__(self, c):
        self.c = c

    def applies(self, it, env, iterable):
        return isinstance(iterable, YieldSeq)

    def havoc(self, it, env):
        env['result'] = fresh_map(it.ctx)

    def _f(self, it, env, k, l, i):
        S0, pos, cf = self.c.S0, self.c.pos, self.c.cf
        dom, val, n, key_at = view(it, env)
        isin = lambda q: S0.typ(q) == GT['INPUT']       # noqa: E731
        return [('length', n == S0.in_n + cf(k)),
                ('key-sequence', z3.Implies(z3.And(i >= 0, i < n), z3.And(dom(key_at(i)), val(key_at(i)) == i))),
                ('inputs-keep-their-numbers', z3.Implies(z3.And(i >= 0, i < S0.in_n), z3.And(dom(S0.in_elem(i)), val(S0.in_elem(i)) == i))),
                ('yielded-gates-numbered', z3.Implies(z3.And(S0.dom(l), z3.Not(isin(l)), pos(l) < k), z3.And(dom(l), val(l) == S0.in_n + cf(pos(l))))),
                ('nothing-else-numbered', z3.Implies(dom(l), z3.And(S0.dom(l), z3.If(isin(l), z3.And(S0.in_cnt(l) > 0, val(l) >= 0, val(l) < S0.in_n, S0.in_elem(val(l)) == l),
                                                                                       z3.And(pos(l) < k, val(l) == S0.in_n + cf(pos(l)))))))]

    def inv(self, it, env, k):
        return self._f(it, env, k, it.ctx.fresh(LabelSort, 'le2'), it.ctx.fresh(I, 'ie2'))

    def inv_assume(self, it, env, k):
        l, i = z3.Const('l!e2', LabelSort), z3.Int('i!e2')
        return [(nm, z3.ForAll([l, i], f) if nm != 'length' else f) for nm, f in self._f(it, env, k, l, i)]


class EnumerateGates(CircuitContract):
    relpath, qualname, name = ENC, '_enumerate_gates', '_enumerate_gates/any-circuit'

    def setup(self, it, ctx):
        c, h = self.circuit(it, ctx)
        S0 = h.S
        self.S0 = S0
        _K[0] += 1
        k = _K[0]
        l = z3.Const('l!en', LabelSort)
        i, j = z3.Ints('i!en j!en')
        pos = z3.Function(f'pos!en{k}', LabelSort, I)
        y = z3.Function(f'yield!en{k}', I, LabelSort)
        cf = z3.Function(f'cnt_noninput!en{k}', I, I)
        self.pos, self.cf = (lambda q: pos(q)), (lambda q: cf(q))
        n = S0.size
        # contract of top_sort(inverse=True), proved under C20: every gate exactly once, operands first
        ctx.assume(z3.ForAll([i], z3.Implies(z3.And(i >= 0, i < n), z3.And(S0.dom(y(i)), pos(y(i)) == i))))
        ctx.assume(z3.ForAll([l], z3.Implies(S0.dom(l), z3.And(pos(l) >= 0, pos(l) < n, y(pos(l)) == l))))
        ctx.assume(z3.ForAll([l, i], z3.Implies(z3.And(S0.dom(l), i >= 0, i < S0.nops(l)), pos(S0.op(l, i)) < pos(l))))
        # ghost counting function (definition) and its Lean-checked consequences (cnt_mono, cnt_strict)
        ni = lambda q: z3.If(S0.typ(y(q)) != GT['INPUT'], 1, 0)       # noqa: E731
        ctx.assume(cf(0) == 0)
        ctx.assume(z3.ForAll([j], z3.Implies(j >= 0, cf(j + 1) == cf(j) + ni(j))))
        ctx.assume(z3.ForAll([i, j], z3.Implies(z3.And(i >= 0, i <= j), cf(i) <= cf(j))))
        ctx.assume(z3.ForAll([i, j], z3.Implies(z3.And(i >= 0, i < j, ni(i) == 1), cf(i) < cf(j))))
        # representation facts of the input list (lean: two_positions_count, count_pos_witness) and the precondition ARITY for inputs
        ctx.assume(z3.ForAll([i, j], z3.Implies(z3.And(i >= 0, i < j, j < S0.in_n, S0.in_elem(i) == S0.in_elem(j)), S0.in_cnt(S0.in_elem(i)) >= 2)))
        pf = z3.Function(f'inpos!en{k}', LabelSort, I)
        ctx.assume(z3.ForAll([l], z3.Implies(S0.in_cnt(l) > 0, z3.And(pf(l) >= 0, pf(l) < S0.in_n, S0.in_elem(pf(l)) == l))))
        ctx.assume(z3.ForAll([l], z3.Implies(z3.And(S0.dom(l), S0.typ(l) == GT['INPUT']), S0.nops(l) == 0)))

        def top_sort(it_, fv, args, kwargs):
            if not kwargs.get('inverse') or getattr(args[0], 'holder', None) is not h:
                raise Unsupported('top_sort call without contract')
            return YieldSeq(it_, h, lambda q: y(q), n)
        it.contracts[CIRC + '::Circuit.top_sort'] = top_sort
        it.loop_specs[(KEY, 1)] = InputsLoop(self)
        it.loop_specs[(KEY, 2)] = GatesLoop(self)
        return [c], {}, {'h': h, 'S0': S0, 'pos': self.pos, 'cf': self.cf}

    def post(self, it, ctx, result, st):
        S0, pos, cf = st['S0'], st['pos'], st['cf']
        if not isinstance(result, NumMap):
            yield ('returns-the-identifier-map', z3.BoolVal(False))
            return
        dom, val, n = result.dom, result.val, result.n
        l, l2 = ctx.fresh(LabelSort, 'lp'), ctx.fresh(LabelSort, 'l2p')
        i = ctx.fresh(I, 'ip')
        isin = lambda q: S0.typ(q) == GT['INPUT']       # noqa: E731
        yield ('E1/exactly-the-gates-are-numbered', dom(l) == S0.dom(l))
        yield ('E2/input-i-gets-identifier-i', z3.Implies(z3.And(i >= 0, i < S0.in_n), z3.And(dom(S0.in_elem(i)), val(S0.in_elem(i)) == i)))
        yield ('E3/identifiers-pairwise-different', z3.Implies(z3.And(dom(l), dom(l2), val(l) == val(l2)), l == l2))
        yield ('E4/operands-have-smaller-identifiers', z3.Implies(z3.And(S0.dom(l), z3.Not(isin(l)), i >= 0, i < S0.nops(l)),
                                                                 z3.And(dom(S0.op(l, i)), val(S0.op(l, i)) < val(l), val(l) >= S0.in_n)))
        yield ('E5/length-is-the-number-of-identifiers', n == S0.in_n + cf(S0.size))
        yield ('E7/identifiers-below-the-number-of-keys', z3.Implies(dom(l), z3.And(val(l) >= 0, val(l) < n)))
        yield ('E6/the-i-th-key-has-identifier-i', z3.Implies(z3.And(i >= 0, i < n), z3.And(dom(result.key_at(i)), val(result.key_at(i)) == i)))
        yield ('circuit-untouched', z3.BoolVal(not [e for e in st['h'].events if e[0] in ('gate-write', 'gate-del', 'users-alias', 'users-del')]))

    def on_raise(self, it, ctx, exc, st):
        yield ('no-raise', z3.BoolVal(False), {'raised': self.exc_name(exc), 'witness': 'raises-' + self.exc_name(exc)})

    def replay(self, values):
        """native replay on a canonical circuit whose input list order differs from the storage order"""
        from cirbo.core.circuit import Circuit, gate
        from cirbo.circuits_db.circuits_encoding import _enumerate_gates
        c = Circuit()
        c.add_inputs(['x', 'y'])
        c.emplace_gate('g', gate.GT, ('x', 'y'))
        c.emplace_gate('h', gate.NOT, ('g',))
        c.set_outputs(['h'])
        c.set_inputs(['y', 'x'])
        ids = _enumerate_gates(c)
        ok = (set(ids) == {'x', 'y', 'g', 'h'} and ids['y'] == 0 and ids['x'] == 1 and len(set(ids.values())) == 4 and ids['g'] > 1 and ids['h'] > ids['g']
              and list(ids.values()) == sorted(ids.values()))
        return ok, f'GT(x,y), NOT(g) with inputs re-ordered to [y, x]: identifiers {ids}'

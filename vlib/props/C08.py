"""C08  Multiplier and squarer generators compute exact products.

P (all operand values, all host circuits, operand aliasing; width-bounded): add_mul (default), add_mul_alter,
   add_mul_karatsuba(_with_efficient_sum), add_mul_dadda, add_mul_wallace, add_mul_pow2_m1 and add_square for
   the small widths at which symbolic execution of the real generators stays tractable; the work lists
   (SortedList) are executed for every tie-breaking order the label comparison could produce.
B: all modes at widths up to 16 bits total, wide Karatsuba/squarer shapes with corner operands (vlib/bounded/C08.py)."""
import z3

from .. import env
from ..pyvc.prove import Prover
from ..pyvc.values import VList
from .arith_common import HostGadget, val_le, b2i
from .common import new_interp, finish_refuted, canary, STD_TRUSTED, STD_ASSUME, run_bounded

LEVEL = 'other'
MUL = 'cirbo/synthesis/generation/arithmetics/multiplication.py'
SQ = 'cirbo/synthesis/generation/arithmetics/square.py'


def spec_mul(n, m, be=False):
    def f(xs, rs, st):
        a, b = xs[:n], xs[n:n + m]
        r = rs
        if be:
            a, b, r = a[::-1], b[::-1], rs[::-1]
        yield ('a*b', val_le(r) == val_le(a) * val_le(b))
        want = n + m if (n > 1 and m > 1) else n + m - 1
        yield ('length', z3.BoolVal(len(rs) == want))
    return f


def spec_sq(n):
    def f(xs, rs, st):
        yield ('a^2', val_le(rs) == val_le(xs) * val_le(xs))
        yield ('length', z3.BoolVal(len(rs) == (2 * n if n > 1 else 1)))
    return f


def contracts(quick):
    cs = []
    shapes = [(1, 1), (1, 2), (2, 1), (2, 2)] + ([] if quick else [(2, 3), (3, 2)])
    fns = ['add_mul', 'add_mul_alter', 'add_mul_karatsuba', 'add_mul_karatsuba_with_efficient_sum', 'add_mul_dadda', 'add_mul_wallace', 'add_mul_pow2_m1']
    for fn in fns:
        for n, m in shapes:
            cs.append(HostGadget(MUL, fn, n + m, spec_mul(n, m), label=f'{fn}/{n}x{m}', shape=(n, m)))
    cs.append(HostGadget(MUL, 'add_mul', 4, spec_mul(2, 2, True), label='add_mul/2x2/be', shape=(2, 2), kwargs={'big_endian': True}))
    for n in (1, 2):
        cs.append(HostGadget(SQ, 'add_square', n, spec_sq(n), label=f'add_square/n{n}'))
    return cs


def run(rep):
    quick = env.TIER != 'thorough'
    rep.trusted_base = list(STD_TRUSTED) + ['abstract circuit model vlib/pyvc/circuit_model.py', 'model of sortedcontainers.SortedList (ascending; label ties explored both ways)']
    for a in STD_ASSUME:
        rep.assume(a)
    rep.assume('width-bounded P (operands of 1..2 bits, 3 in thorough): universal in operand values, host circuit and aliasing; every larger width, and the recursion of Karatsuba / split squarer, is bounded-only')
    it = new_interp()
    pv = Prover(rep, it, 'C08')
    for c in contracts(quick):
        pv.run_contract(c)
    a, b = z3.Bools('a b')
    canary(rep, pv, 'C08/canary/and-is-sum', [], b2i(z3.And(a, b)) == b2i(a) + b2i(b))
    refuted = pv.discharge(env.NPROC)
    finish_refuted(rep, pv, refuted)
    run_bounded(rep, 'C08', quick)
    rep.extra['explanation'] = 'small-width products proved on an abstract host circuit from the real generators; all other widths: bounded stand-in (exhaustive values up to 16 bits total, corner values at recursion widths).'

"""C05  The circuit-to-CNF reduction is exact.

P: every _process_* template (fixed arity by direct SMT; and/nand/or/nor for every arity by loop
   invariant; xor/nxor for arities 2..5 — their sign-pattern enumeration has no inductive invariant in pyvc), the dispatch of tseytin_transformation on
   one-gate circuits of every type, literal allocation on those circuits; tseytin_transformation on an ARBITRARY well-formed circuit and output
   selection (c05_rec.py: invariants of both loops, contract of the memoised recursion process_gate verified per gate type/arity).
B: brute-force CNF-vs-evaluation on enumerated circuits (vlib/bounded/C05.py)."""
import itertools
import z3

from .. import env
from ..pyvc.values import Sym, VList, Obj, Unsupported
from ..pyvc.models import SymSeq, Valuation, CnfView, ClauseView, LoopSpec
from ..pyvc.prove import Prover, Contract
from ..pyvc import theory
from ..spec import ops as S
from ..spec import net as N
from .common import new_interp, finish_refuted, canary, STD_TRUSTED, STD_ASSUME, real

LEVEL = 'other'
TS = 'cirbo/sat/cnf/tseytin.py'

TEMPLATE_OF = {'ALWAYS_TRUE': '_process_always_true', 'ALWAYS_FALSE': '_process_always_false', 'NOT': '_process_not_or_lnot',
               'LNOT': '_process_not_or_lnot', 'RNOT': '_process_rnot', 'IFF': '_process_iff_or_liff', 'LIFF': '_process_iff_or_liff',
               'RIFF': '_process_riff', 'AND': '_process_and', 'NAND': '_process_nand', 'OR': '_process_or', 'NOR': '_process_nor',
               'XOR': '_process_xor', 'NXOR': '_process_nxor', 'GT': '_process_gt', 'LT': '_process_lt', 'GEQ': '_process_geq',
               'LEQ': '_process_leq'}


def arities_for(t):
    if t in S.NARY:
        return [2, 3]
    if t in S.BINARY:
        return [2]
    if t in S.UNARY:
        return [1]
    return [0]


def _brute_template(fname, t, top, lits):
    """native replay: run the real template and compare with OP on all valuations"""
    ts = real('cirbo.sat.cnf.tseytin')
    cnf = []
    getattr(ts, fname)(cnf, top, list(lits))
    vars_ = sorted({abs(l) for l in [top] + list(lits)} | {abs(l) for c in cnf for l in c})
    for bits in itertools.product((False, True), repeat=len(vars_)):
        v = dict(zip(vars_, bits))
        lv = lambda l: v[l] if l > 0 else not v[-l]
        sat = all(any(lv(l) for l in c) for c in cnf)
        want = lv(top) == bool(S.OP(t, [lv(l) for l in lits]))
        if sat != want:
            return False, f'{fname}(cnf, {top}, {list(lits)}) -> {cnf}; valuation {v}: cnf satisfied={sat}, top==OP({t}) is {want}'
    return True, f'{fname}(cnf, {top}, {list(lits)}) -> {cnf} is equivalent to top = OP({t})'


class TemplateFixed(Contract):
    """appended clauses  <=>  lit(top) = OP(t)(lit(l_1..l_k))   for the fixed arity k; nothing else of cnf changes"""

    def __init__(self, t, arity):
        self.t, self.arity = t, arity
        self.relpath, self.qualname = TS, TEMPLATE_OF[t]
        self.name = f'{self.qualname}/{t}/arity{arity}'

    def setup(self, it, ctx):
        val = Valuation()
        top = z3.Int('top')
        lits = [z3.Int(f'l{i}') for i in range(self.arity)]
        ctx.assume(top != 0)
        for l in lits:
            ctx.assume(l != 0)
        sat0 = z3.Bool('sat0')
        cnf = CnfView(val, sat0)
        return [cnf, Sym(top), VList([Sym(l) for l in lits])], {}, {'val': val, 'top': top, 'lits': lits, 'sat0': sat0, 'cnf': cnf}

    def post(self, it, ctx, result, st):
        val = st['val']
        lv = [val.lit(it, Sym(l)) for l in st['lits']]
        yield ('equiv', st['cnf'].sat == z3.And(st['sat0'], val.lit(it, Sym(st['top'])) == theory.OPz(self.t, lv)),
               {'witness': 'nary>2' if self.arity > 2 else 'fixed-arity'})

    def inputs(self, st):
        return {'top': st['top'], 'lits': st['lits']}

    def replay(self, values):
        top, lits = values['top'], values['lits']
        # any non-zero literals with distinct variables exhibit a template defect; normalise the model
        lits = [i + 1 for i in range(len(lits))]
        top = len(lits) + 1
        return _brute_template(self.qualname, self.t, top, lits)


class NaryLoop(LoopSpec):
    def __init__(self, contract):
        self.c = contract

    def _name(self, env):
        """the long clause under construction, identified by its ROLE (the one python list among the locals before the loop), not
        by the name of the local (seeded/harmless/m06 renames it)"""
        if getattr(self, 'clause_name', None) is None:
            from ..pyvc.values import VList
            cands = [n for n, v in env.items() if isinstance(v, VList)]
            self.clause_name = cands[0] if len(cands) == 1 else 'common'
        return self.clause_name

    def havoc(self, it, env):
        ctx = it.ctx
        st = self.c.st
        env[self._name(env)] = ClauseView(st['val'], ctx.fresh(z3.BoolSort(), 'common'))
        st['cnf'].sat = ctx.fresh(z3.BoolSort(), 'sat')
        st['cnf'].n = ctx.fresh(z3.IntSort(), 'ncl')

    def inv(self, it, env, k):
        st = self.c.st
        val, top = st['val'], st['val'].lit(it, Sym(st['top']))
        ALL, ANY = st['ALL'](k), st['ANY'](k)
        common = env[self._name(env)]
        ctru = st['cnf'].clause_truth(it, common)
        t = self.c.t
        if t == 'AND':
            return [('cnf', st['cnf'].sat == z3.And(st['sat0'], z3.Implies(top, ALL))), ('common', ctru == z3.Or(top, z3.Not(ALL)))]
        if t == 'NAND':
            return [('cnf', st['cnf'].sat == z3.And(st['sat0'], z3.Implies(z3.Not(top), ALL))), ('common', ctru == z3.Or(z3.Not(top), z3.Not(ALL)))]
        if t == 'OR':
            return [('cnf', st['cnf'].sat == z3.And(st['sat0'], z3.Implies(ANY, top))), ('common', ctru == z3.Or(z3.Not(top), ANY))]
        if t == 'NOR':
            return [('cnf', st['cnf'].sat == z3.And(st['sat0'], z3.Implies(ANY, z3.Not(top)))), ('common', ctru == z3.Or(top, ANY))]
        raise Unsupported('no invariant for ' + t)


class TemplateNary(Contract):
    """and/nand/or/nor templates for EVERY number of literals n >= 0 (loop invariant over the CNF view)"""

    def __init__(self, t):
        self.t = t
        self.relpath, self.qualname = TS, TEMPLATE_OF[t]
        self.name = f'{self.qualname}/{t}/all-arities'
        self.st = None

    def setup(self, it, ctx):
        val = Valuation()
        top = z3.Int('top')
        n = z3.Int('n')
        ctx.assume(top != 0)
        ctx.assume(n >= 0)
        L = z3.Function('lits', z3.IntSort(), z3.IntSort())
        i = z3.Int('i')
        ctx.assume(z3.ForAll([i], L(i) != 0))
        ALL = z3.Function('ALL', z3.IntSort(), z3.BoolSort())
        ANY = z3.Function('ANY', z3.IntSort(), z3.BoolSort())
        lt = lambda j: z3.If(L(j) > 0, val.f(L(j)), z3.Not(val.f(-L(j))))
        ctx.assume(ALL(0))
        ctx.assume(z3.Not(ANY(0)))
        ctx.assume(z3.ForAll([i], z3.Implies(i >= 0, z3.And(ALL(i + 1) == z3.And(ALL(i), lt(i)), ANY(i + 1) == z3.Or(ANY(i), lt(i)))),
                             patterns=[ALL(i + 1), ANY(i + 1)]))
        sat0 = z3.Bool('sat0')
        cnf = CnfView(val, sat0)
        self.st = {'val': val, 'top': top, 'n': n, 'sat0': sat0, 'cnf': cnf, 'ALL': ALL, 'ANY': ANY}
        it.loop_specs[(TS + '::' + self.qualname, 1)] = NaryLoop(self)
        seq = SymSeq([], n, lambda k: Sym(L(k)), kind='list')
        return [cnf, Sym(top), seq], {}, self.st

    def post(self, it, ctx, result, st):
        top = st['val'].lit(it, Sym(st['top']))
        n = st['n']
        spec = {'AND': st['ALL'](n), 'NAND': z3.Not(st['ALL'](n)), 'OR': st['ANY'](n), 'NOR': z3.Not(st['ANY'](n))}[self.t]
        yield ('equiv', st['cnf'].sat == z3.And(st['sat0'], top == spec))

    def replay(self, values):
        for k in (0, 1, 2, 3, 4):
            ok, d = _brute_template(self.qualname, self.t, k + 1, list(range(1, k + 1))) if k >= 2 else (True, '')
            if not ok:
                return ok, d
        return True, 'arities 2..4 pass natively'


class OneGateDispatch(Contract):
    """tseytin_transformation on the circuit  INPUT x1..xk ; g = t(x1..xk) ; OUTPUT g  (built by interpreting the
    real Circuit class): input i is variable i+1, g is variable k+1, and the CNF is equivalent to
    x_{k+1} = OP(t)(x_1..x_k)  ∧  x_{k+1}."""

    def __init__(self, t, arity):
        self.t, self.arity = t, arity
        self.relpath, self.qualname = TS, 'tseytin_transformation'
        self.name = f'tseytin_transformation/one-gate/{t}/arity{arity}'
        self.strings = False

    def setup(self, it, ctx):
        circ_mod = it.load_module('cirbo.core.circuit.circuit')
        gate_mod = it.load_module('cirbo.core.circuit.gate')
        c = it.call(circ_mod.env['Circuit'], [], {})
        k = max(self.arity, 1)
        labels = [f'x{i + 1}' for i in range(k)]
        for l in labels:
            it.call(it.getattr(c, '_emplace_gate'), [l, gate_mod.env['INPUT']], {})
        it.call(it.getattr(c, '_emplace_gate'), ['g', gate_mod.env[self.t], tuple(labels[:self.arity])], {})
        it.call(it.getattr(c, 'set_outputs'), [VList(['g'])], {})
        return [c], {}, {'k': k}

    def post(self, it, ctx, result, st):
        raw = it.call(it.getattr(result, 'get_raw'), [], {})
        k = st['k']
        xs = [None] + [z3.Bool(f'x{i}') for i in range(1, k + 3)]
        clauses = []
        ok_shape = True
        for cl in it.iterate(raw):
            lits = []
            for l in it.iterate(cl):
                if not isinstance(l, int) or l == 0 or abs(l) > k + 1:
                    ok_shape = False
                else:
                    lits.append(xs[l] if l > 0 else z3.Not(xs[-l]))
            clauses.append(z3.Or(lits) if lits else z3.BoolVal(False))
        yield ('variables-in-range', z3.BoolVal(ok_shape))
        if ok_shape:
            want = z3.And(xs[k + 1] == theory.OPz(self.t, xs[1:self.arity + 1]), xs[k + 1])
            yield ('cnf-equiv', z3.And(clauses) == want, {'witness': 'nary>2' if self.arity > 2 else 'dispatch'})


def run(rep):
    quick = env.TIER != 'thorough'
    rep.trusted_base = list(STD_TRUSTED)
    for a in STD_ASSUME:
        rep.assume(a)
    rep.assume('SAT solvers are sound and complete (real python-sat is absent; the z3-backed shim is used by the bounded layer)')
    rep.assume('tseytin_transformation on an arbitrary circuit is proved for gate arities under contract (fixed-arity types, n-ary types with 2 or 3 operands, constants without operands): '
               'loops by invariants, the memoised recursion process_gate by its contract (recursive calls use the contract: partial correctness of recursive procedures); the last step from '
               '"sat <=> every encoded gate obeys its equation and the selected outputs are true, literals injective, inputs = variables 1..n" to the statement about evaluation is rule R2 (DAG induction); '
               'n-ary gates with more than 3 operands and constants carrying operands inside whole circuits are covered by the templates (all arities) and the bounded layer only')
    rep.trusted_base.append('proof rule for recursive procedures: a body verified against its contract, with recursive calls replaced by the contract, satisfies the contract (partial correctness)')
    it = new_interp()
    pv = Prover(rep, it, 'C05')
    for t in S.GATE_TYPES:
        if t == 'INPUT':
            continue
        for ar in arities_for(t):
            pv.run_contract(TemplateFixed(t, ar))
            pv.run_contract(OneGateDispatch(t, ar))
        if t in ('AND', 'NAND', 'OR', 'NOR'):
            pv.run_contract(TemplateNary(t))
            it.loop_specs.clear()
        if t in ('XOR', 'NXOR'):
            for ar in (4, 5):          # the parity templates enumerate sign patterns: proved per arity (2..5), not for all n
                pv.run_contract(TemplateFixed(t, ar))
    # the whole transformation on an arbitrary circuit: loops by invariants, process_gate by its contract (c05_rec.py)
    from .c05_rec import TseytinAny, INSTANCES, G_INSTANCES
    extra = [] if quick else [(t, 4) for t in S.NARY] + [(t, a) for t in S.CONST for a in (1, 2)]      # thorough: wider n-ary gates, constants carrying operands
    G_INSTANCES[:] = INSTANCES + extra
    for c in [TseytinAny('loops'), TseytinAny('loops', True), TseytinAny('saved')] + [TseytinAny(m) for m in INSTANCES + extra]:
        it.loop_specs.clear()
        it.contracts.clear()
        pv.run_contract(c)
    it.loop_specs.clear()
    it.contracts.clear()
    it.symbolic_range_lists = False
    p, q, r = z3.Bools('p q r')
    canary(rep, pv, 'C05/canary/gt-clauses-are-lt', [], z3.And(z3.Or(p, z3.Not(r)), z3.Or(z3.Not(q), z3.Not(r)), z3.Or(z3.Not(p), q, r)) == (r == theory.OPz('LT', [p, q])))
    refuted = pv.discharge(env.NPROC)
    finish_refuted(rep, pv, refuted)
    from .common import run_bounded
    run_bounded(rep, 'C05', quick)
    rep.extra['explanation'] = ('Template equivalences are proved from the real source for all literals (and all arities for and/nand/or/nor); the '
                                'whole transformation is proved on an arbitrary circuit (gate arities under contract) by loop invariants and the contract of the '
                                'memoised recursion; the bounded layer brute-forces all valuations of the generated CNF on enumerated circuits.')

"""C03 / C18  RemoveRedundantGates._transform on an ARBITRARY well-formed circuit, both settings of allow_inputs_removal.

The pass rebuilds the circuit inside the on_exit hook of circuit.dfs(circuit.outputs, ...). dfs is used through its
CONTRACT (rule R4; proved under C20: c20_trav.Traverse — exactly the gates reachable from the start gates; c20_trav.DfsOrder
— one exit hook per entered gate, in post-order):
   the exit hook is called for e(0), ..., e(m-1): exactly the gates reachable from the outputs through operands, each once,
   every operand of e(j) earlier in the sequence.
Invariant of the hook calls: the new circuit holds exactly e(0..k-1) with their original definitions and is well formed.
Then add_inputs(<inputs not yet present>) / set_inputs(<inputs present, original order>) / set_outputs(outputs) are inlined
from the source; the two list comprehensions are order-preserving filter views of circuit.inputs.

Post: a new circuit on a new heap cell; its gates are exactly the reachable gates (plus every input unless removal was
requested) with unchanged definitions; same outputs in the same order; inputs = the kept inputs in their original order
(all of them without removal); well formed; the argument is untouched. (Same definitions on a reachable-closed set of
gates give the same truth table: rule R2.)"""
import z3

from ..pyvc.values import Sym, LabelSort, GT, Obj, Unsupported, VList, VDict, GenV, Native
from ..pyvc.models import PathEnd
from ..pyvc import circuit_model as CM
from .C02 import CircuitContract, state_eq, AllGatesLoop, CIRC
from .c02_order import PrefixCopyLoop

I = z3.IntSort()
B = z3.BoolSort()
RRG = 'cirbo/minimization/simplification/remove_redundant_gates.py'
_K = [0]


def copied_clauses(S1, S2, inset, l, x, i):
    return [('gates-are-the-expected-set', S2.dom(l) == inset(l)),
            ('definitions-copied', z3.Implies(S2.dom(l), z3.And(S2.typ(l) == S1.typ(l), S2.nops(l) == S1.nops(l), S2.op(l, i) == S1.op(l, i), S2.opc(l, x) == S1.opc(l, x))))]


class AddInputsLoop:
    """for _input in inputs: check_label_doesnt_exist(_input, self); self.emplace_gate(_input, INPUT)   over a filter view"""

    def __init__(self, c):
        self.c = c
        self.base = None

    def applies(self, it, env, iterable):
        self.src = iterable
        return isinstance(iterable, CM.FilterView)

    def _setup(self, it, env):
        if self.base is not None:
            return
        self.base = self.c.h2.S
        _K[0] += 1
        pc = z3.Function(f'pcadd!{_K[0]}', I, LabelSort, I)
        self.pc = pc
        src, ctx = self.src, it.ctx
        k, x = z3.Int('k!pa'), z3.Const('x!pa', LabelSort)
        n = src.n
        ctx.assume(z3.ForAll([x], pc(0, x) == 0))
        ctx.assume(z3.ForAll([k, x], z3.Implies(z3.And(k >= 0, k < n), pc(k + 1, x) == pc(k, x) + z3.If(src.elem(k) == x, 1, 0)), patterns=[pc(k + 1, x)]))
        ctx.assume(z3.ForAll([x], pc(n, x) == src.count(x)))
        ctx.assume(z3.ForAll([k, x], z3.Implies(z3.And(k >= 0, k <= n), z3.And(pc(k, x) >= 0, pc(k, x) <= src.count(x))), patterns=[pc(k, x)]))

    def havoc(self, it, env):
        self._setup(it, env)
        _K[0] += 1
        S2 = CM.fresh_state(f'addin{_K[0]}')
        CM.assume_state(it.ctx, S2, wf=True, tag=f'addin{_K[0]}')
        self.c.h2.S = S2

    def _f(self, it, env, k, l, x, i):
        self._setup(it, env)
        Sb, S2, pc = self.base, self.c.h2.S, self.pc
        new = lambda q: z3.And(z3.Not(Sb.dom(q)), pc(k, q) > 0)
        return [('gates-are-old-plus-added-inputs', S2.dom(l) == z3.Or(Sb.dom(l), pc(k, l) > 0)),
                ('old-gates-unchanged', z3.Implies(Sb.dom(l), z3.And(S2.typ(l) == Sb.typ(l), S2.nops(l) == Sb.nops(l), S2.op(l, i) == Sb.op(l, i), S2.opc(l, x) == Sb.opc(l, x)))),
                ('added-gates-are-inputs', z3.Implies(new(l), z3.And(S2.typ(l) == GT['INPUT'], S2.nops(l) == 0))),
                ('no-outputs-no-blocks', z3.And(S2.out_n == Sb.out_n, S2.out_cnt(l) == Sb.out_cnt(l), S2.b_member == Sb.b_member))]

    def inv(self, it, env, k):
        c = it.ctx
        out = self._f(it, env, k, c.fresh(LabelSort, 'la'), c.fresh(LabelSort, 'xa'), c.fresh(I, 'ia'))
        S2 = self.c.h2.S.copy()
        S2.rank = self.c.S1.rank
        return out + [('WF/' + nm, f) for nm, f in CM.wf_goals(c, S2)]

    def inv_assume(self, it, env, k):
        l, x = z3.Consts('l!ai x!ai', LabelSort)
        i = z3.Int('i!ai')
        out = []
        for nm, f in self._f(it, env, k, l, x, i):
            for part in (list(f.children()) if z3.is_and(f) else [f]):
                used = [v for v in (l, x, i) if any(v.eq(w) for w in z3.z3util.get_vars(part))]
                out.append((nm, z3.ForAll(used, part) if used else part))
        # instances of the prefix-count axioms at the current element (instantiation hints)
        src, pc = self.src, self.pc
        e = src.elem(k)
        out.append(('hint', z3.Implies(z3.And(k >= 0, k < src.n), z3.And(pc(k + 1, e) == pc(k, e) + 1, pc(k + 1, e) <= src.count(e), pc(k, e) >= 0))))
        return out


class Rrg(CircuitContract):
    relpath, qualname = RRG, 'RemoveRedundantGates._transform'

    def __init__(self, allow_removal):
        self.allow = allow_removal
        self.name = f'RemoveRedundantGates._transform/allow_inputs_removal={allow_removal}'

    def setup(self, it, ctx):
        c, h1 = self.circuit(it, ctx)
        S1 = h1.S
        self.h1, self.S1 = h1, S1
        self.h2 = None
        it.filter_views = True
        l, u = z3.Consts('l!rr u!rr', LabelSort)
        i, j = z3.Ints('i!rr j!rr')
        _K[0] += 1
        k = _K[0]
        reach = z3.Function(f'reach!{k}', LabelSort, B)
        xpos = z3.Function(f'xpos!{k}', LabelSort, I)
        e = z3.Function(f'exitseq!{k}', I, LabelSort)
        m = z3.Int(f'nreach!{k}')
        self.reach, self.xpos = (lambda q: reach(q)), (lambda q: xpos(q))
        # ---- contract of circuit.dfs(circuit.outputs, on_exit_hook=h): the exit-hook calls (C20)
        ctx.assume(m >= 0)
        ctx.assume(z3.ForAll([i], z3.Implies(z3.And(i >= 0, i < m), z3.And(S1.dom(e(i)), reach(e(i)), xpos(e(i)) == i))))
        ctx.assume(z3.ForAll([l], z3.Implies(reach(l), z3.And(S1.dom(l), xpos(l) >= 0, xpos(l) < m, e(xpos(l)) == l))))
        ctx.assume(z3.ForAll([l, i], z3.Implies(z3.And(reach(l), i >= 0, i < S1.nops(l)), z3.And(reach(S1.op(l, i)), xpos(S1.op(l, i)) < xpos(l)))))
        ctx.assume(z3.ForAll([l], z3.Implies(S1.out_cnt(l) > 0, reach(l))))
        # representation facts (lean): a counted operand occurs at a position; two equal input positions would count >= 2
        w = z3.Function(f'opwit!{k}', LabelSort, LabelSort, I)
        ctx.assume(z3.ForAll([u, l], z3.Implies(S1.opc(u, l) > 0, z3.And(w(u, l) >= 0, w(u, l) < S1.nops(u), S1.op(u, w(u, l)) == l)), patterns=[S1.opc(u, l)]))
        ctx.assume(z3.ForAll([i, j], z3.Implies(z3.And(i >= 0, i < j, j < S1.in_n, S1.in_elem(i) == S1.in_elem(j)), S1.in_cnt(S1.in_elem(i)) >= 2)))
        ctx.assume(z3.ForAll([l], z3.Implies(z3.And(S1.dom(l), S1.typ(l) == GT['INPUT']), S1.nops(l) == 0)))      # precondition (ARITY for inputs): INPUT gates carry no operands
        pf = z3.Function(f'inpos!{k}', LabelSort, I)
        ctx.assume(z3.ForAll([l], z3.Implies(S1.in_cnt(l) > 0, z3.And(pf(l) >= 0, pf(l) < S1.in_n, S1.in_elem(pf(l)) == l))))
        contract = self
        st = {'h1': h1, 'S1': S1, 'c': c, 'reach': self.reach, 'pos1': lambda q: pf(q)}

        def dfs(it_, fv, args, kwargs):
            if getattr(args[0], 'holder', None) is not h1 or set(kwargs) - {'on_exit_hook'}:
                raise Unsupported('dfs call without contract')
            hook = kwargs.get('on_exit_hook')
            contract.simulate_hooks(it_, hook, e, m, st)
            return GenV(iter(()))
        it.contracts[CIRC + '::Circuit.dfs'] = dfs
        m_mod = it.load_module('cirbo.minimization.simplification.remove_redundant_gates')
        obj = it.call(m_mod.env['RemoveRedundantGates'], [], {'allow_inputs_removal': self.allow})
        self.add_loop = AddInputsLoop(self)
        it.loop_specs[(CIRC + '::Circuit.add_inputs', 1)] = self.add_loop
        return [obj, c], {}, st

    # ---- the hook calls as a cut loop ---------------------------------------------------------------------------
    def reseat(self, it, new):
        ctx = it.ctx
        f = new.fields
        empty = (isinstance(f['_inputs'], VList) and not f['_inputs'].items and isinstance(f['_outputs'], VList) and not f['_outputs'].items
                 and isinstance(f['_gates'], VDict) and not f['_gates'].d and isinstance(f['_gate_to_users'], VDict) and not f['_gate_to_users'].d
                 and isinstance(f['_blocks'], VDict) and not f['_blocks'].d)
        ctx.check('new-circuit-starts-empty', z3.BoolVal(empty))
        if not empty:
            raise Unsupported('the new circuit is not empty before the traversal')
        o2, h2 = CM.make_circuit(it, ctx, tag='rrg', empty=True)
        x = z3.Const('x!ob', LabelSort)
        ctx.assume(z3.ForAll([x], z3.Not(h2.other_block(x))))
        new.fields = o2.fields
        new.holder = h2
        h2.obj = new
        self.h2 = h2
        h1 = self.h1
        it.loop_specs[(CIRC + '::Circuit._emplace_gate', 1)] = CM.UsersLoop(h2, lambda it_, e_: (e_['operands'], it_.label_term(e_['label'])), +1)
        it.loop_specs[(CIRC + '::Circuit.set_inputs', 1)] = AllGatesLoop(h2, None, listed=lambda q: h2.S.in_cnt(q) > 0)          # set_inputs(<the inputs present>)
        it.loop_specs[(CIRC + '::Circuit.set_inputs', 2)] = PrefixCopyLoop(h2)

    def hook_inv(self, k, l, x, i):
        S1, S2 = self.S1, self.h2.S
        inset = lambda q: z3.And(self.reach(q), self.xpos(q) < k)
        return copied_clauses(S1, S2, inset, l, x, i) + [('no-outputs-no-blocks-yet', z3.And(S2.out_n == 0, S2.out_cnt(l) == 0, z3.Not(S2.b_member)))]

    def simulate_hooks(self, it, hook, e, m, st):
        ctx = it.ctx
        if not (isinstance(hook, object) and hook is not None):
            raise Unsupported('dfs without an exit hook')
        # the hook closes over _new_circuit (nonlocal of _transform)
        new = hook.env['_new_circuit'] if hasattr(hook, 'env') and '_new_circuit' in hook.env else None
        if new is None:
            raise Unsupported('exit hook does not close over _new_circuit')
        self.reseat(it, new)
        st['h2'] = self.h2

        def check_inv(k, tag):
            l, x, i = ctx.fresh(LabelSort, 'lh'), ctx.fresh(LabelSort, 'xh'), ctx.fresh(I, 'ih')
            for nm, f in self.hook_inv(k, l, x, i):
                ctx.check(f'hooks/{tag}/{nm}', f)
            S2 = self.h2.S.copy()
            S2.rank = self.S1.rank
            for nm, f in CM.wf_goals(ctx, S2):
                ctx.check(f'hooks/{tag}/WF/{nm}', f)

        def assume_inv(k):
            _K[0] += 1
            S2 = CM.fresh_state(f'rrg{_K[0]}')
            CM.assume_state(ctx, S2, wf=True, tag=f'rrg{_K[0]}')
            self.h2.S = S2
            l, x = z3.Consts('l!hk x!hk', LabelSort)
            i = z3.Int('i!hk')
            for nm, f in self.hook_inv(k, l, x, i):
                for part in (list(f.children()) if z3.is_and(f) else [f]):
                    used = [v for v in (l, x, i) if any(v.eq(w) for w in z3.z3util.get_vars(part))]
                    ctx.assume(z3.ForAll(used, part) if used else part)
        check_inv(z3.IntVal(0), 'entry')
        if ctx.choose(ctx.fresh(B, 'hookcut')):
            k = ctx.fresh(I, 'kh')
            ctx.assume(z3.And(k >= 0, k < m))
            assume_inv(k)
            gate_obj = CM.make_gate_obj(it, self.S1, e(k))
            it.call(hook, [gate_obj, VDict()], {})
            check_inv(k + 1, 'preserved')
            raise PathEnd()
        assume_inv(m)

    # ---- whole function -------------------------------------------------------------------------------------------
    def post(self, it, ctx, result, st):
        h1, S1, reach = st['h1'], st['S1'], st['reach']
        h2 = st.get('h2')
        yield ('returns-a-new-circuit-object', z3.BoolVal(isinstance(result, Obj) and result is not st['c'] and h2 is not None and getattr(result, 'holder', None) is h2))
        if h2 is None or getattr(result, 'holder', None) is not h2:
            return
        CM.sync_fields(it, h2)
        S2 = h2.S.copy()
        S2.rank = S1.rank
        for nm, f in CM.wf_goals(ctx, S2):
            yield ('WF/' + nm, f)
        l, x = ctx.fresh(LabelSort, 'lq'), ctx.fresh(LabelSort, 'xq')
        i, j = ctx.fresh(I, 'iq'), ctx.fresh(I, 'jq')
        is_in = lambda q: z3.And(S1.dom(q), S1.typ(q) == GT['INPUT'])
        keep = (lambda q: reach(q)) if self.allow else (lambda q: z3.Or(reach(q), is_in(q)))
        yield ('gates-are-exactly-the-reachable-ones' + ('' if self.allow else '-plus-all-inputs'), S2.dom(l) == keep(l), {'witness': 'gate-set'})
        yield ('definitions-unchanged', z3.Implies(S2.dom(l), z3.And(S2.typ(l) == S1.typ(l), S2.nops(l) == S1.nops(l), z3.Implies(z3.And(i >= 0, i < S1.nops(l)), S2.op(l, i) == S1.op(l, i)),
                                                                     S2.opc(l, x) == S1.opc(l, x))), {'witness': 'definitions'})
        yield ('same-outputs-in-order', z3.And(S2.out_n == S1.out_n, z3.Implies(z3.And(i >= 0, i < S1.out_n), S2.out_elem(i) == S1.out_elem(i)), S2.out_cnt(l) == S1.out_cnt(l)), {'witness': 'outputs'})
        yield ('inputs-are-the-kept-input-gates', S2.in_cnt(l) == z3.If(z3.And(is_in(l), keep(l)), 1, 0), {'witness': 'inputs'})
        if not self.allow:
            yield ('same-inputs-in-order', z3.And(S2.in_n == S1.in_n, z3.Implies(z3.And(i >= 0, i < S1.in_n), S2.in_elem(i) == S1.in_elem(i))), {'witness': 'inputs'})
        else:
            # order kept: positions of the new list map to strictly increasing positions of the old one
            pos1 = st['pos1']
            yield ('kept-inputs-in-original-order', z3.Implies(z3.And(i >= 0, i < j, j < S2.in_n), z3.And(pos1(S2.in_elem(i)) < pos1(S2.in_elem(j)), S1.in_elem(pos1(S2.in_elem(i))) == S2.in_elem(i))), {'witness': 'inputs'})
        yield ('no-blocks-in-the-result', z3.Not(S2.b_member))
        yield ('argument-untouched', z3.BoolVal(not [ev for ev in h1.events if ev[0] in ('gate-write', 'gate-del', 'users-alias', 'users-del')]))
        yield ('argument-state-unchanged', state_eq(ctx, h1.S, S1, ['dom', 'typ', 'nops', 'op', 'opc', 'udom', 'cnt', 'tot', 'in_n', 'in_elem', 'in_cnt', 'out_n', 'out_elem', 'out_cnt', 'b_member', 'bg', 'bi', 'bo', 'size']))

    def on_raise(self, it, ctx, exc, st):
        n = self.exc_name(exc)
        yield ('no-raise', z3.BoolVal(False), {'raised': n, 'witness': 'raises-' + n})

"""C20  Depth-first and breadth-first traversal (Circuit._traverse_circuit, the body of dfs / bfs) on an ARBITRARY
well-formed circuit, from an ARBITRARY start sequence, in both directions: the generator yields exactly the gates
reachable from the start set, each once.

"Reachable" is the least set containing the start gates and closed under successors (operands, resp. users).
  soundness     every yielded gate lies in EVERY such closed set C (C: an arbitrary predicate assumed closed)
  completeness  the set of yielded gates contains the start gates and is itself closed under successors
  once          a gate is yielded only when its state leaves UNVISITED, which happens once
Abstraction: the work list is a multiset (count view); `queue[pop_index]` is an arbitrary element of it and
`queue.pop(pop_index)` removes that same element — exact for pop_index = 0 (appends go to the other end) and for
pop_index = -1 as long as nothing was appended since the read (else: undecided). The proof holds for every choice of
the element, so the LIFO / FIFO order is irrelevant to these clauses. Hooks are the default no-ops (hook discipline and
visiting order: bounded stand-in).

Outer invariant (state map st, work list count cnt):
  O1 left-UNVISITED gates are gates and in C      O2 work-list entries are gates and in C
  O3 ENTERED gates are on the work list (BFS: there are none at the loop head)
  O4 every successor of an ENTERED / VISITED gate has left UNVISITED or is on the work list
  O5 every start gate has left UNVISITED or is on the work list      O6 yielded <=> left UNVISITED
Inner invariant (scan of the successors of the current gate): the work list only grows, by successors of the current
gate; the successors scanned so far have left UNVISITED or are on the work list."""
import z3

from ..pyvc.values import Sym, LabelSort, Obj, GenV, Unsupported, Native, VDict, VList
from ..pyvc.interp import Model, _simp
from ..pyvc.prove import Contract
from ..pyvc import circuit_model as CM
from .C20 import Dir

CIRC = 'cirbo/core/circuit/circuit.py'
KEY = CIRC + '::Circuit._traverse_circuit'
I = z3.IntSort()
B = z3.BoolSort()
U, E, V = 0, 1, 2
_K = [0]


class CountBag(Model):
    """the work list as a multiset: cnt(l) occurrences of l"""

    def __init__(self, cnt):
        self.cnt = cnt
        self.head = None
        self.dirty = False

    def m_truth_term(self):
        l = z3.Const('l!cb', LabelSort)
        return z3.Exists([l], self.cnt(l) > 0)

    def m_len(self, it):
        n = it.ctx.fresh(I, 'baglen')
        it.ctx.assume(n >= 0)
        it.ctx.assume((n > 0) == self.m_truth_term())
        return Sym(n)

    def m_getitem(self, it, k):
        if not (isinstance(k, int) and k in (0, -1)):
            raise Unsupported('work list read at an index other than 0 / -1')
        if not it.ctx.choose(self.m_truth_term()):
            it.raise_('IndexError', 'list index out of range')
        x = it.ctx.fresh(LabelSort, 'head')
        it.ctx.assume(self.cnt(x) > 0)
        self.head, self.dirty, self.head_index = x, False, k
        return Sym(x)

    def m_getattr(self, it, name):
        if name == 'append':
            def append(v):
                vt = it.label_term(v)
                c = self.cnt
                self.cnt = lambda l: c(l) + z3.If(l == vt, 1, 0)
                self.dirty = True
            return Native('worklist.append', append)
        if name == 'pop':
            def pop(k=-1):
                if self.head is None or not isinstance(k, int) or k != self.head_index:
                    raise Unsupported('work list pop without a preceding read at the same index')
                if k == -1 and self.dirty:
                    raise Unsupported('pop(-1) after an append: not the element that was read')
                x, c = self.head, self.cnt
                self.cnt = lambda l: c(l) - z3.If(l == x, 1, 0)
                self.head = None
                return Sym(x)
            return Native('worklist.pop', pop)
        raise Unsupported('work list method ' + name)


class StateMap(Model):
    """gate_states: defaultdict(label -> TraverseState) as st(l) in {0 UNVISITED, 1 ENTERED, 2 VISITED}"""

    def __init__(self, st, members):
        self.st, self.members = st, members       # members: code -> EnumMember

    def m_getitem(self, it, k):
        kt = it.label_term(k)
        for code in (U, E):
            if it.ctx.choose(_simp(self.st(kt) == code)):
                return self.members[code]
        it.ctx.assume(self.st(kt) == V)
        return self.members[V]

    def m_setitem(self, it, k, v):
        kt = it.label_term(k)
        code = [c for c, m in self.members.items() if m is v]
        if not code:
            raise Unsupported('state map: value is not a TraverseState member')
        st, code = self.st, code[0]
        self.st = lambda l: z3.If(l == kt, z3.IntVal(code), st(l))


def bag_view(it, q):
    if isinstance(q, CountBag):
        return q.cnt
    if isinstance(q, VList):
        items = [it.label_term(x) for x in q.items]
        return lambda l: z3.Sum([z3.If(x == l, 1, 0) for x in items]) if items else z3.IntVal(0)
    if hasattr(q, 'count'):
        return q.count
    if isinstance(q, CM.LabelList):
        return q._get(q.h.S)[2]
    raise Unsupported('work list of type ' + type(q).__name__)


def st_view(it, g):
    if isinstance(g, StateMap):
        return g.st
    if isinstance(g, VDict) and not g.d:
        return lambda l: z3.IntVal(U)
    raise Unsupported('state map of type ' + type(g).__name__)


class Outer:
    def __init__(self, c):
        self.c = c

    def havoc(self, it, env):
        ctx = it.ctx
        _K[0] += 1
        cnt = z3.Function(f'wl!{_K[0]}', LabelSort, I)
        st = z3.Function(f'st!{_K[0]}', LabelSort, I)
        yd = z3.Function(f'yielded!{_K[0]}', LabelSort, B)
        env['queue'] = CountBag(lambda l: cnt(l))
        env['gate_states'] = StateMap(lambda l: st(l), self.c.members)
        ctx.ghostY = lambda l: yd(l)

    def formulas(self, it, env, l, i):
        c = self.c
        S0, D, C = c.S0, c.D, c.C
        cnt, st, Y = bag_view(it, env['queue']), st_view(it, env['gate_states']), it.ctx.ghostY
        succ = D.succ(l, i)
        out = [('O0/states-and-counts-well-formed', z3.And(st(l) >= 0, st(l) <= 2, cnt(l) >= 0)),
               ('O1/left-unvisited-are-gates-in-every-closed-set', z3.Implies(st(l) != U, z3.And(S0.dom(l), C(l)))),
               ('O2/worklist-entries-are-gates-in-every-closed-set', z3.Implies(cnt(l) > 0, z3.And(S0.dom(l), C(l)))),
               ('O3/entered-gates-are-on-the-worklist', z3.Implies(st(l) == E, cnt(l) > 0) if c.dfs else st(l) != E),
               ('O4/successors-of-processed-gates-seen', z3.Implies(z3.And(st(l) != U, i >= 0, i < D.nsucc(l)), z3.Or(st(succ) != U, cnt(succ) > 0))),
               ('O5/start-gates-seen', z3.Implies(c.start.count(l) > 0, z3.Or(st(l) != U, cnt(l) > 0))),
               ('O6/yielded-iff-left-unvisited', Y(l) == (st(l) != U))]
        return out

    def inv(self, it, env, k):
        return self.formulas(it, env, it.ctx.fresh(LabelSort, 'lo'), it.ctx.fresh(I, 'io'))

    def inv_assume(self, it, env, k):
        l, i = z3.Const('l!to', LabelSort), z3.Int('i!to')
        return [(nm, z3.ForAll([l, i], f)) for nm, f in self.formulas(it, env, l, i)]

    def on_yield(self, it, env, value):
        ctx, c = it.ctx, self.c
        cur = it.label_term(it.getattr(value, 'label'))
        Y = ctx.ghostY
        ctx.check('yield/is-a-gate', c.S0.dom(cur))
        ctx.check('yield/at-most-once', z3.Not(Y(cur)), {'witness': 'yielded-twice'})
        ctx.check('yield/in-every-closed-set-containing-the-start-gates', c.C(cur), {'witness': 'unreachable-yielded'})
        ctx.ghostY = lambda l: z3.Or(l == cur, Y(l))


class Inner:
    """for child in _next_getter(current_elem): on_discover_hook(...); if gate_states[child] == UNVISITED: queue.append(child)"""

    def __init__(self, c):
        self.c = c
        self.base = None

    def applies(self, it, env, iterable):
        return isinstance(iterable, (CM.UsersRef, CM.OpsSeq)) and iterable.concrete_len(it) is None

    def _setup(self, it, env):
        if self.base is None:
            self.base = bag_view(it, env['queue'])
            self.cur = it.label_term(it.getattr(env['current_elem'], 'label'))

    def havoc(self, it, env):
        self._setup(it, env)
        _K[0] += 1
        cnt = z3.Function(f'wli!{_K[0]}', LabelSort, I)
        q = CountBag(lambda l: cnt(l))
        old = env['queue']
        q.head, q.head_index, q.dirty = old.head, getattr(old, 'head_index', None), True
        env['queue'] = q

    def formulas(self, it, env, k, l, j):
        self._setup(it, env)
        c = self.c
        S0, D, cur = c.S0, c.D, self.cur
        cnt, st, base = bag_view(it, env['queue']), st_view(it, env['gate_states']), self.base
        sj = D.succ(cur, j)
        return [('worklist-only-grows', cnt(l) >= base(l)),
                ('new-entries-are-successors-of-the-current-gate', z3.Implies(cnt(l) > base(l), D.succcount(cur, l) > 0)),
                ('scanned-successors-seen', z3.Implies(z3.And(j >= 0, j < k), z3.Or(st(sj) != U, cnt(sj) > 0)))]

    def inv(self, it, env, k):
        return self.formulas(it, env, k, it.ctx.fresh(LabelSort, 'li'), it.ctx.fresh(I, 'ji'))

    def inv_assume(self, it, env, k):
        l, j = z3.Const('l!ti', LabelSort), z3.Int('j!ti')
        return [(nm, z3.ForAll([l, j], f)) for nm, f in self.formulas(it, env, k, l, j)]


class AllGatesNoop:
    """for label in self._gates: if gate_states[label] == UNVISITED: unvisited_hook(...)   (default hook: no effect)"""

    def applies(self, it, env, iterable):
        if isinstance(iterable, CM.GatesMap):
            iterable.enumeration(it.ctx)
            return True
        return False

    def havoc(self, it, env):
        pass

    def inv(self, it, env, k):
        return []


class _Start:
    def __init__(self, count):
        self.count = count


class Traverse(Contract):
    """Circuit.dfs / Circuit.bfs (public entry points; _traverse_circuit is inlined from the source) with default hooks"""
    relpath = CIRC

    def __init__(self, mode, inverse, given=True):
        self.mode, self.inverse, self.given = mode, inverse, given
        self.dfs = mode == 'DFS'
        self.qualname = 'Circuit.' + mode.lower()
        self.name = f'{mode.lower()}/inverse={inverse}/' + ('given-start-gates' if given else 'default-start-gates')

    def setup(self, it, ctx):
        c, h = CM.make_circuit(it, ctx, tag='c')
        S0 = h.S
        self.S0, self.h = S0, h
        # successors in the direction of the traversal: users when inverse, operands otherwise
        self.D = Dir(S0, self.inverse)
        CM.install_get_gate_users_contract(it)
        cm = it.load_module('cirbo.core.circuit.circuit')
        ts = cm.env['TraverseState'].members
        self.members = {U: ts['UNVISITED'], E: ts['ENTERED'], V: ts['VISITED']}
        if self.given:
            start = CM.AbsLabelSeq(ctx, tag='start')
        else:           # start_gates=None: the inputs when inverse, the outputs otherwise
            start = _Start(S0.in_cnt if self.inverse else S0.out_cnt)
        self.start = start
        l = z3.Const('l!tp', LabelSort)
        i = z3.Int('i!tp')
        ctx.assume(z3.ForAll([l], z3.Implies(start.count(l) > 0, S0.dom(l))))          # precondition: start gates are gates
        ctx.assume(z3.ForAll([l], S0.rank(l) >= 0))
        # C: an arbitrary set that contains the start gates and is closed under successors
        _K[0] += 1
        Cf = z3.Function(f'closed!{_K[0]}', LabelSort, B)
        self.C = lambda x: Cf(x)
        D = self.D
        ctx.assume(z3.ForAll([l], z3.Implies(start.count(l) > 0, Cf(l))))
        ctx.assume(z3.ForAll([l, i], z3.Implies(z3.And(S0.dom(l), Cf(l), i >= 0, i < D.nsucc(l)), Cf(D.succ(l, i)))))
        # view link: a label counted among the successors occurs at some position (lean: count_pos_witness)
        w = z3.Function(f'succwit!{_K[0]}', LabelSort, LabelSort, I)
        x = z3.Const('x!tp', LabelSort)
        ctx.assume(z3.ForAll([l, x], z3.Implies(D.succcount(l, x) > 0, z3.And(w(l, x) >= 0, w(l, x) < D.nsucc(l), D.succ(l, w(l, x)) == x))))
        ctx.ghostY = lambda q: z3.BoolVal(False)
        it.loop_specs[(KEY, 1)] = Outer(self)
        it.loop_specs[(KEY, 2)] = Inner(self)
        it.loop_specs[(KEY, 4)] = AllGatesNoop()
        args = [c, start] if self.given else [c]
        return args, {'inverse': self.inverse}, {'h': h, 'S0': S0, 'C': self.C, 'D': self.D, 'start': start}

    def execute(self, it, fv, args, kwargs):
        g = it.call_function(fv, args, kwargs, force_inline=True)
        if not isinstance(g, GenV):
            raise Unsupported('dfs / bfs did not return the generator of _traverse_circuit')
        for _ in g.it:
            raise Unsupported('yield outside the main loop')
        return None

    def post(self, it, ctx, result, st):
        S0, D, Y = st['S0'], st['D'], ctx.ghostY          # (per-path objects come from st: the contract object is shared by all paths)
        l = ctx.fresh(LabelSort, 'lp')
        i = ctx.fresh(I, 'ip')
        yield ('sound/yielded-gates-lie-in-every-closed-set', z3.Implies(Y(l), z3.And(S0.dom(l), st['C'](l))), {'witness': 'unreachable-yielded'})
        yield ('complete/start-gates-yielded', z3.Implies(st['start'].count(l) > 0, Y(l)), {'witness': 'reachable-not-yielded'})
        yield ('complete/yielded-set-closed-under-successors', z3.Implies(z3.And(Y(l), i >= 0, i < D.nsucc(l)), Y(D.succ(l, i))), {'witness': 'reachable-not-yielded'})
        yield ('circuit-unchanged', z3.BoolVal(not [e for e in st['h'].events if e[0] in ('gate-write', 'gate-del', 'users-del', 'users-alias')]))

    def on_raise(self, it, ctx, exc, st):
        n = exc.cls.name if isinstance(exc, Obj) else repr(exc)
        yield ('no-raise', z3.BoolVal(False), {'raised': n, 'witness': 'raises-' + n})


# =====================================================================================================================
# DFS hook discipline with a POSITIONAL stack: every gate gets at most one enter hook and one exit hook, enter before
# exit, exit hooks fire in post-order (all successors have exited before), and when the generator stops every entered
# gate has exited.  Ghost: epos(l) = position of the entered copy of an ENTERED gate.
#   P3 ENTERED gates sit on the stack at epos        P4 everything above an ENTERED gate is strictly further along the
#   direction of the traversal (rank argument: no ENTERED gate can be a successor of the top ENTERED gate on a DAG)
#   P5 an UNVISITED successor of an ENTERED gate has a copy above it     P6 successors of VISITED gates are VISITED
#   P7 hook bookkeeping: entered <=> left UNVISITED, exited <=> VISITED
# =====================================================================================================================
class PosStack(CM.AbsStack):
    def m_getattr(self, it, name):
        if name == 'pop':
            def pop(k=-1):
                if not (isinstance(k, int) and k == -1):
                    raise Unsupported('positional stack: pop at an index other than -1')
                if not it.ctx.choose(_simp(self.n > 0)):
                    it.raise_('IndexError', 'pop from empty list')
                top = self.elem(self.n - 1)
                self.n = self.n - 1
                return Sym(top)
            return Native('stack.pop', pop)
        return CM.AbsStack.m_getattr(self, it, name)


def stack_view(it, q):
    if isinstance(q, CM.AbsStack):
        return q.n, q.elem
    if hasattr(q, 'n') and hasattr(q, 'elem'):
        return q.n, q.elem
    raise Unsupported('stack of type ' + type(q).__name__)


class OrderOuter:
    def __init__(self, c):
        self.c = c
        self.old = None

    def havoc(self, it, env):
        ctx = it.ctx
        _K[0] += 1
        k = _K[0]
        st = z3.Function(f'sto!{k}', LabelSort, I)
        el = z3.Function(f'stk!{k}', I, LabelSort)
        ep = z3.Function(f'epos!{k}', LabelSort, I)
        en = z3.Function(f'entered!{k}', LabelSort, B)
        ex = z3.Function(f'exited!{k}', LabelSort, B)
        n = ctx.fresh(I, 'stklen')
        env['queue'] = PosStack(n, lambda i: el(i))
        env['gate_states'] = StateMap(lambda l: st(l), self.c.members)
        ctx.ghostE, ctx.ghostEn, ctx.ghostX = (lambda l: ep(l)), (lambda l: en(l)), (lambda l: ex(l))
        self.old = ((lambda l: st(l)), n, (lambda l: ep(l)))

    def epos_now(self, it, env):
        """ghost update: a gate that became ENTERED in this iteration got the then-top position"""
        ctx = it.ctx
        if self.old is None:
            return ctx.ghostE
        st0, n0, ep0 = self.old
        st = st_view(it, env['gate_states'])
        return lambda l: z3.If(z3.And(st(l) == E, st0(l) != E), n0 - 1, ep0(l))

    def formulas(self, it, env, l, i, q):
        c = self.c
        S0, D = c.S0, c.D
        n, elem = stack_view(it, env['queue'])
        st = st_view(it, env['gate_states'])
        ep, En, X = self.epos_now(it, env), it.ctx.ghostEn, it.ctx.ghostX
        succ = D.succ(l, i)
        q2 = z3.Int('q!p5')
        return [('P0/well-formed', z3.And(st(l) >= 0, st(l) <= 2, n >= 0)),
                ('P1/stack-entries-are-gates', z3.Implies(z3.And(q >= 0, q < n), S0.dom(elem(q)))),
                ('P2/left-unvisited-are-gates', z3.Implies(st(l) != U, S0.dom(l))),
                ('P3/entered-gates-sit-at-epos', z3.Implies(st(l) == E, z3.And(ep(l) >= 0, ep(l) < n, elem(ep(l)) == l))),
                ('P4/entries-above-an-entered-gate-are-further-along', z3.Implies(z3.And(st(l) == E, q > ep(l), q < n), c.further(elem(q), l))),
                ('P5/unvisited-successors-of-entered-gates-are-above', z3.Implies(z3.And(st(l) == E, i >= 0, i < D.nsucc(l), st(succ) == U),
                                                                              z3.Exists([q2], z3.And(q2 > ep(l), q2 < n, elem(q2) == succ)))),
                ('P6/successors-of-visited-gates-are-visited', z3.Implies(z3.And(st(l) == V, i >= 0, i < D.nsucc(l)), st(succ) == V)),
                ('P7/hook-bookkeeping', z3.And(En(l) == (st(l) != U), X(l) == (st(l) == V)))]

    def inv(self, it, env, k):
        c = it.ctx
        return self.formulas(it, env, c.fresh(LabelSort, 'lo'), c.fresh(I, 'io'), c.fresh(I, 'qo'))

    def inv_assume(self, it, env, k):
        l, i, q = z3.Const('l!do', LabelSort), z3.Int('i!do'), z3.Int('q!do')
        return [(nm, z3.ForAll([l, i, q], f)) for nm, f in self.formulas(it, env, l, i, q)]

    def on_yield(self, it, env, value):
        pass


class OrderInner:
    def __init__(self, c):
        self.c = c
        self.base = None

    def applies(self, it, env, iterable):
        return isinstance(iterable, (CM.UsersRef, CM.OpsSeq)) and iterable.concrete_len(it) is None

    def _setup(self, it, env):
        if self.base is None:
            self.base = stack_view(it, env['queue'])
            self.cur = it.label_term(it.getattr(env['current_elem'], 'label'))

    def havoc(self, it, env):
        self._setup(it, env)
        _K[0] += 1
        el = z3.Function(f'stki!{_K[0]}', I, LabelSort)
        env['queue'] = PosStack(it.ctx.fresh(I, 'stkleni'), lambda i: el(i))

    def formulas(self, it, env, k, q, j):
        self._setup(it, env)
        c = self.c
        D, cur = c.D, self.cur
        n0, e0 = self.base
        n, elem = stack_view(it, env['queue'])
        st = st_view(it, env['gate_states'])
        sj = D.succ(cur, j)
        q2 = z3.Int('q!n2')
        return [('stack-only-grows-old-part-kept', z3.And(n >= n0, z3.Implies(z3.And(q >= 0, q < n0), elem(q) == e0(q)))),
                ('pushed-entries-are-unvisited-successors', z3.Implies(z3.And(q >= n0, q < n), z3.And(D.succcount(cur, elem(q)) > 0, st(elem(q)) == U))),
                ('scanned-successors-seen', z3.Implies(z3.And(j >= 0, j < k, st(sj) == U), z3.Exists([q2], z3.And(q2 >= n0, q2 < n, elem(q2) == sj))))]

    def inv(self, it, env, k):
        return self.formulas(it, env, k, it.ctx.fresh(I, 'qi'), it.ctx.fresh(I, 'ji'))

    def inv_assume(self, it, env, k):
        q, j = z3.Int('q!di'), z3.Int('j!di')
        return [(nm, z3.ForAll([q, j], f)) for nm, f in self.formulas(it, env, k, q, j)]


class DfsOrder(Contract):
    """Circuit.dfs with recording enter / exit hooks: hook discipline of the depth-first traversal"""
    relpath, qualname = CIRC, 'Circuit.dfs'

    def __init__(self, inverse):
        self.inverse = inverse
        self.name = f'dfs/inverse={inverse}/hook-discipline'

    def setup(self, it, ctx):
        c, h = CM.make_circuit(it, ctx, tag='c')
        S0 = h.S
        self.S0, self.h = S0, h
        self.D = Dir(S0, self.inverse)
        D = self.D
        CM.install_get_gate_users_contract(it)
        cm = it.load_module('cirbo.core.circuit.circuit')
        ts = cm.env['TraverseState'].members
        self.members = {U: ts['UNVISITED'], E: ts['ENTERED'], V: ts['VISITED']}
        # "further along the direction": successors have smaller rank (operands) resp. larger rank (users)
        self.further = (lambda a, b: S0.rank(a) > S0.rank(b)) if self.inverse else (lambda a, b: S0.rank(a) < S0.rank(b))
        start = CM.AbsLabelSeq(ctx, tag='start')
        l, x = z3.Consts('l!dp x!dp', LabelSort)
        i = z3.Int('i!dp')
        ctx.assume(z3.ForAll([l], z3.Implies(start.count(l) > 0, S0.dom(l))))
        # view links (lean: count_pos_witness): a counted successor occurs at some position; a counted operand occurs at some position
        _K[0] += 1
        w = z3.Function(f'succwit!{_K[0]}', LabelSort, LabelSort, I)
        ctx.assume(z3.ForAll([l, x], z3.Implies(D.succcount(l, x) > 0, z3.And(w(l, x) >= 0, w(l, x) < D.nsucc(l), D.succ(l, w(l, x)) == x))))
        ow = z3.Function(f'opwit!{_K[0]}', LabelSort, LabelSort, I)
        ctx.assume(z3.ForAll([l, x], z3.Implies(S0.opc(l, x) > 0, z3.And(ow(l, x) >= 0, ow(l, x) < S0.nops(l), S0.op(l, ow(l, x)) == x))))
        # every successor is strictly further along (W5; for users via W3 and the operand witness) — proved as a lemma obligation below
        ctx.ghostE = lambda q: z3.IntVal(0)
        ctx.ghostEn = lambda q: z3.BoolVal(False)
        ctx.ghostX = lambda q: z3.BoolVal(False)
        outer = OrderOuter(self)
        it.loop_specs[(KEY, 1)] = outer
        it.loop_specs[(KEY, 2)] = OrderInner(self)
        it.loop_specs[(KEY, 4)] = AllGatesNoop()
        contract = self

        def on_enter(gate_obj, states):
            cur = it.label_term(it.getattr(gate_obj, 'label'))
            En = it.ctx.ghostEn
            it.ctx.check('enter-hook/at-most-once-per-gate', z3.Not(En(cur)), {'witness': 'hook-order'})
            it.ctx.ghostEn = lambda q: z3.Or(q == cur, En(q))

        def on_exit(gate_obj, states):
            cur = it.label_term(it.getattr(gate_obj, 'label'))
            En, X = it.ctx.ghostEn, it.ctx.ghostX
            j = it.ctx.fresh(I, 'jx')
            it.ctx.check('exit-hook/after-the-enter-hook', En(cur), {'witness': 'hook-order'})
            it.ctx.check('exit-hook/at-most-once-per-gate', z3.Not(X(cur)), {'witness': 'hook-order'})
            it.ctx.check('exit-hook/post-order-all-successors-exited', z3.Implies(z3.And(j >= 0, j < contract.D.nsucc(cur)), X(contract.D.succ(cur, j))), {'witness': 'post-order'})
            it.ctx.ghostX = lambda q: z3.Or(q == cur, X(q))
        kw = {'inverse': self.inverse, 'on_enter_hook': Native('ghost.on_enter', on_enter), 'on_exit_hook': Native('ghost.on_exit', on_exit)}
        return [c, start], kw, {'h': h, 'S0': S0, 'D': D}

    def execute(self, it, fv, args, kwargs):
        g = it.call_function(fv, args, kwargs, force_inline=True)
        if not isinstance(g, GenV):
            raise Unsupported('dfs did not return the generator of _traverse_circuit')
        for _ in g.it:
            raise Unsupported('yield outside the main loop')
        return None

    def post(self, it, ctx, result, st):
        l = ctx.fresh(LabelSort, 'lp')
        En, X = ctx.ghostEn, ctx.ghostX
        yield ('every-entered-gate-has-exited', z3.Implies(En(l), X(l)), {'witness': 'hook-order'})
        yield ('circuit-unchanged', z3.BoolVal(not [e for e in st['h'].events if e[0] in ('gate-write', 'gate-del', 'users-del', 'users-alias')]))

    def on_raise(self, it, ctx, exc, st):
        n = exc.cls.name if isinstance(exc, Obj) else repr(exc)
        yield ('no-raise', z3.BoolVal(False), {'raised': n, 'witness': 'raises-' + n})

"""Helpers shared by the property modules."""
import importlib
import z3
from .. import env
from ..pyvc.interp import Interp
from ..pyvc.models import install_loop_rule
from ..pyvc.prove import Prover, Contract
from ..pyvc import theory

STD_TRUSTED = [
    'pyvc (AST->SMT symbolic executor of /verif/vlib/pyvc; tested by canaries, covers and the CPython differential self-test)',
    'z3 4.x/5.x and cvc5 as SMT back ends',
    'CPython 3.12 semantics as encoded in vlib/pyvc/lib.py (library axioms are differentially tested, not proved)',
]
STD_ASSUME = [
    'partial correctness: termination is not proved',
    'Python integers are mathematical integers (no machine arithmetic is involved)',
]


def new_interp():
    it = Interp(env.REPO)
    install_loop_rule(it)
    return it


def real(modname):
    """import a module of the tree under verification natively (for replay / bounded layer)"""
    return importlib.import_module(modname)


def finish_refuted(rep, pv, refuted, bounded_search=None):
    """Turn refuted obligations into violations: native replay of the counter-model first, bounded
    search second, otherwise `no-failing-input-found` (DESIGN §3.8)."""
    seen = set()
    for name, m, model in refuted:
        c = m['contract']
        key = (_strip_path(name), (m.get('meta') or {}).get('witness', 'counter-model'))
        if key in seen:          # one finding per (obligation, witness class): later paths add nothing
            continue
        seen.add(key)
        vals, mdl = pv.counter_values(m)
        detail = f'obligation refuted by {name}'
        replay = {'obligation': name, 'function': m.get('function') or c.qualname, 'counter_model_inputs': vals,
                  'solver_output': (mdl or model or '')[:4000], 'kind': 'pyvc-counter-model'}
        native = None
        if True:
            try:
                native = c.replay(vals if vals is not None else {})
            except Exception as e:       # replay harness problem: keep as no-input
                native = None
                replay['replay_error'] = repr(e)
        wclass = (m.get('meta') or {}).get('witness', 'counter-model')
        if native is not None and native[0] is False:
            replay['native_replay'] = native[1]
            rep.violation(_strip_path(name), wclass, f'{detail}; native replay on the real code fails: {native[1]}', replay)
            continue
        found = None
        if bounded_search is not None:
            try:
                found = bounded_search(name, m)
            except Exception as e:
                replay['bounded_search_error'] = repr(e)
        if found:
            replay['native_replay'] = found
            rep.violation(_strip_path(name), wclass, f'{detail}; bounded search found a failing input: {found}', replay)
        else:
            if native is not None:
                replay['native_replay_of_counter_model'] = 'passes: ' + str(native[1])
            rep.violation(_strip_path(name), wclass, detail + '; the verifier gave no input that fails natively', replay, no_input=True)


def _strip_path(name):
    import re
    return re.sub(r'/path\d+(#\d+)?$', '', name)


def canary(rep, pv, name, hyps, goal):
    """A deliberately false obligation: must come back refuted, otherwise the engine is unsound/vacuous."""
    from ..pyvc import solve
    st, model, dt = solve.quick_check(hyps, goal, timeout_ms=20000)
    rep.extra.setdefault('canaries', []).append({'name': name, 'status': st})
    if st != 'refuted':
        rep.error(f'canary {name} was not refuted (status {st}): engine unsound or vacuous')


def run_bounded(rep, prop, quick):
    """run the bounded stand-in driver of a property (if present and not disabled)"""
    import importlib
    if env.os_environ_flag('VERIF_NO_BOUNDED'):
        rep.assume('bounded layer disabled by VERIF_NO_BOUNDED for this run')
        return
    rep.bounded_started = True
    try:
        B = importlib.import_module(f'vlib.bounded.{prop}')
    except ImportError as e:
        rep.assume(f'bounded driver for {prop} not present in this build ({e})')
        return
    B.run_bounded(rep, quick)

"""C19  Local rewrites keep or specialise the function exactly as documented.

P (arbitrary well-formed circuit): remove_gate (succeeds exactly for an existing gate nobody uses, removes it
   from gates, users, inputs, outputs and deletes blocks naming it; WF kept) and replace_inputs for up to two
   labels per list (retyped to the constant, removed from the input list, every other gate untouched, WF kept,
   exact raise conditions); rename_gate on an arbitrary well-formed circuit (arbitrary arity, any number of users,
   outputs listed repeatedly, optional block): the post-state is the image of the pre-state under old -> new, exact
   raise conditions, WF kept (vlib/props/c19_rename.py; three loops cut by closed-form invariants);
   Block._rename_gate on lists of bounded length. replace_subcircuit is bounded-only in this build.
B: vlib/bounded/C19.py (rename_gate, replace_inputs incl. input order and cofactor, remove_gate, replace_subcircuit)."""
import z3

from .. import env
from ..pyvc.values import Sym, LabelSort, GT, Obj, VList
from ..pyvc.prove import Prover
from ..pyvc import circuit_model as CM
from .common import new_interp, finish_refuted, canary, STD_TRUSTED, STD_ASSUME, run_bounded
from .C02 import CircuitContract, RemoveGate, state_eq, ALL, USERS, BLK

LEVEL = 'other'
I = z3.IntSort()


class ReplaceInputs(CircuitContract):
    qualname = 'Circuit.replace_inputs'

    def __init__(self, kt, kf):
        self.kt, self.kf = kt, kf
        self.name = f'replace_inputs/{kt}true+{kf}false'

    def setup(self, it, ctx):
        c, h = self.circuit(it, ctx)
        S0 = h.S
        l = z3.Const('L!in', LabelSort)
        ctx.assume(z3.ForAll([l], z3.Implies(z3.And(S0.dom(l), S0.typ(l) == GT['INPUT']), S0.nops(l) == 0)))     # ARITY for inputs
        ts = [z3.Const(f't{i}', LabelSort) for i in range(self.kt)]
        fs = [z3.Const(f'f{i}', LabelSort) for i in range(self.kf)]
        # position of an input in the original list (representation facts: a listed label occurs at some position; two
        # positions with the same label would count >= 2, impossible by W4) — lean: count_pos_witness, two_positions_count
        pf = z3.Function('inpos', LabelSort, I)
        i, j = z3.Ints('i!ip j!ip')
        ctx.assume(z3.ForAll([l], z3.Implies(S0.in_cnt(l) > 0, z3.And(pf(l) >= 0, pf(l) < S0.in_n, S0.in_elem(pf(l)) == l))))
        ctx.assume(z3.ForAll([i, j], z3.Implies(z3.And(i >= 0, i < j, j < S0.in_n, S0.in_elem(i) == S0.in_elem(j)), S0.in_cnt(S0.in_elem(i)) >= 2)))
        return [c, VList([Sym(x) for x in ts]), VList([Sym(x) for x in fs])], {}, {'h': h, 'S0': S0, 'ts': ts, 'fs': fs, 'pos0': lambda q: pf(q)}

    def post(self, it, ctx, result, st):
        h, S0, ts, fs = st['h'], st['S0'], st['ts'], st['fs']
        yield from self.wf_post(it, ctx, h, rank=S0.rank)
        S1 = h.S
        for x in ts:
            yield ('retyped-true', z3.And(S1.dom(x), S1.typ(x) == GT['ALWAYS_TRUE'], S1.nops(x) == 0, S1.in_cnt(x) == 0, S0.typ(x) == GT['INPUT']))
        for x in fs:
            yield ('retyped-false', z3.And(S1.dom(x), S1.typ(x) == GT['ALWAYS_FALSE'], S1.nops(x) == 0, S1.in_cnt(x) == 0, S0.typ(x) == GT['INPUT']))
        l, y = ctx.fresh(LabelSort, 'lf'), ctx.fresh(LabelSort, 'yf')
        j = ctx.fresh(I, 'jf')
        other = z3.And([l != x for x in ts + fs]) if ts + fs else z3.BoolVal(True)
        yield ('frame/other-gates', z3.Implies(other, z3.And(S1.dom(l) == S0.dom(l), S1.typ(l) == S0.typ(l), S1.nops(l) == S0.nops(l), S1.op(l, j) == S0.op(l, j),
                                                             S1.opc(l, y) == S0.opc(l, y), S1.in_cnt(l) == S0.in_cnt(l))))
        yield ('frame/users-outputs-blocks', state_eq(ctx, S1, S0, USERS + ['out_n', 'out_elem', 'out_cnt'] + BLK))
        yield ('inputs-count', S1.in_n == S0.in_n - len(ts + fs))
        # the remaining inputs keep their original relative order: positions in the new list map to increasing positions of the old one
        pos0 = st['pos0']
        a, b2 = ctx.fresh(I, 'oa'), ctx.fresh(I, 'ob')
        yield ('inputs/remaining-in-original-order', z3.Implies(z3.And(a >= 0, a < b2, b2 < S1.in_n), z3.And(pos0(S1.in_elem(a)) < pos0(S1.in_elem(b2)),
                                                                                                        S0.in_elem(pos0(S1.in_elem(a))) == S1.in_elem(a))), {'witness': 'input-order'})
        yield ('inputs/remaining-are-the-others', z3.Implies(z3.And(a >= 0, a < S1.in_n), z3.And([S1.in_elem(a) != x for x in ts + fs]) if ts + fs else z3.BoolVal(True)))
        if len(ts + fs) > 1:
            yield ('labels-were-distinct', z3.Distinct(*(ts + fs)))

    def on_raise(self, it, ctx, exc, st):
        n = self.exc_name(exc)
        S0 = st['S0']
        labels = st['ts'] + st['fs']
        if n == 'GateDoesntExistError':
            yield ('raise/some-label-absent', z3.Or([z3.Not(S0.dom(x)) for x in labels]), {'raised': n})
        elif n == 'GateNotInputError':
            dup = z3.Or([labels[a] == labels[b] for a in range(len(labels)) for b in range(a + 1, len(labels))]) if len(labels) > 1 else z3.BoolVal(False)
            yield ('raise/some-label-not-input-or-repeated', z3.Or(dup, z3.Or([z3.And(S0.dom(x), S0.typ(x) != GT['INPUT']) for x in labels])), {'raised': n})
        else:
            yield ('no-raise', z3.BoolVal(False), {'raised': n, 'witness': 'raises-' + n})


def run(rep):
    quick = env.TIER != 'thorough'
    rep.trusted_base = list(STD_TRUSTED) + ['abstract circuit model vlib/pyvc/circuit_model.py', 'proof rule R2: retyping an input to a constant yields the cofactor (DAG induction over unchanged gate equations)']
    for a in STD_ASSUME:
        rep.assume(a)
    rep.assume('replace_subcircuit has no deductive obligation in this build (bounded stand-in only); the cofactor statement itself is rule R2 over the retyped gates')
    rep.assume('rename_gate: Block._rename_gate is used at its call site by a count-level summary (every occurrence of old becomes new in the three block lists); its body is proved '
               'position-wise only for lists of length <= (2,3,2); representation lemmas of python lists/tuples (a counted label occurs at some position; two positions with the same '
               'label count >= 2; x occurs in a prefix-closed enumeration iff count(x) > 0; the filter comprehension [i for i, y in enumerate(L) if y == x] enumerates all positions of x increasingly) are background facts')
    it = new_interp()
    pv = Prover(rep, it, 'C19')
    from .c19_rename import RenameGate, BlockRename
    cs = [RemoveGate()] + [ReplaceInputs(a, b) for a, b in ((1, 0), (0, 1), (1, 1), (2, 0), (0, 2), (2, 1), (0, 0))]
    cs += [RenameGate()] + [BlockRename(*k) for k in ((0, 0, 0), (1, 1, 1), (2, 3, 2))]
    for c in cs:
        it.loop_specs.clear()
        it.contracts.clear()
        pv.run_contract(c)
    x = z3.Const('x', LabelSort)
    f = z3.Function('incnt', LabelSort, z3.IntSort())
    canary(rep, pv, 'C19/canary/remove-keeps-count', [f(x) >= 1], f(x) - 1 == f(x))
    refuted = pv.discharge(env.NPROC)
    finish_refuted(rep, pv, refuted)
    run_bounded(rep, 'C19', quick)
    rep.extra['explanation'] = 'remove_gate, replace_inputs and rename_gate proved on an arbitrary well-formed circuit from the real source; replace_subcircuit: bounded stand-in.'

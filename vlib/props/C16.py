"""C16  The database codec never silently changes a circuit.

P (all byte values, all positions): BitWriter.write appends exactly one bit to the bit stream and keeps the
   representation invariant of the writer; BitReader.read returns the bit at the current position and
   advances by one, raising BitIOError exactly at the end; write_number(n, k) for k in {0,1,2,3,7,8,9,12} on an arbitrary writer state rejects exactly the numbers
   that do not fit and otherwise appends the k little-endian bits; read_number(k) for the same widths on an arbitrary reader state returns the next k bits
   as a little-endian number, advances by k and raises exactly when fewer than k bits are left; the two contracts compose to read_number(write_number(n, k)) = n;
   the same two contracts for EVERY width k >= 0 (loop invariants over the abstract bit-stream view, write() used through its proved stream contract, ghost spec function RS); the gate-type code tables are mutually inverse and _get_arity is what the decoder reads.
B: whole bit strings / numbers, dictionary records, circuit round trips, database files (vlib/bounded/C16.py)."""
import z3

from .. import env
from ..pyvc.values import Sym, Obj, VList, Native, Unsupported
from ..pyvc.interp import Model, _simp
from ..pyvc.lib import Pow2
from ..pyvc.prove import Prover, Contract
from .common import new_interp, finish_refuted, canary, STD_TRUSTED, STD_ASSUME, run_bounded

LEVEL = 'other'
BIO = 'cirbo/circuits_db/bit_io.py'
ENC = 'cirbo/circuits_db/circuits_encoding.py'
I = z3.IntSort()


class Bytes(Model):
    """bytearray / bytes of symbolic length: n, elem(i) in [0,256)"""

    def __init__(self, n, elem):
        self.n, self.elem = n, elem

    def m_len(self, it):
        return Sym(self.n)

    def _idx(self, it, k):
        kt = it.int_term(k)
        if not it.ctx.choose(_simp(z3.And(kt >= -self.n, kt < self.n))):
            it.raise_('IndexError', 'index out of range')
        return z3.simplify(z3.If(kt < 0, kt + self.n, kt))

    def m_getitem(self, it, k):
        return Sym(self.elem(self._idx(it, k)))

    def m_setitem(self, it, k, v):
        i = self._idx(it, k)
        vt = it.int_term(v)
        it.ctx.check('byte-in-range', z3.And(vt >= 0, vt < 256), {'witness': 'byte-range'})
        old = self.elem
        self.elem = lambda j: z3.If(j == i, vt, old(j))

    def m_getattr(self, it, name):
        if name == 'append':
            def append(x):
                xt = it.int_term(x)
                n, old = self.n, self.elem
                self.elem = lambda j: z3.If(j == n, xt, old(j))
                self.n = n + 1
            return Native('bytearray.append', append)
        raise Unsupported('bytearray.' + name)


def bitof(byte, m):
    """(byte >> m) & 1 for m in 0..7 as linear arithmetic"""
    r = (byte / 128) % 2
    for k in range(6, -1, -1):
        r = z3.If(m == k, (byte / (2 ** k)) % 2, r)
    return r


class Write(Contract):
    relpath, qualname, name = BIO, 'BitWriter.write', 'BitWriter.write'
    frame_fields = (('BitWriter', '_bit_pos'),)

    def setup(self, it, ctx):
        m = it.load_module('cirbo.circuits_db.bit_io')
        n = z3.Int('n')
        ef = z3.Function('bytes0', I, I)
        pos = z3.Int('pos')
        b = z3.Bool('bit')
        i = z3.Int('i!b')
        # representation invariant of the writer
        ctx.assume(z3.And(n >= 0, pos >= 1, pos <= 8, z3.Implies(n == 0, pos == 8)))
        ctx.assume(z3.ForAll([i], z3.And(ef(i) >= 0, ef(i) < 256)))
        for k in range(1, 9):
            ctx.assume(z3.Implies(z3.And(n > 0, pos == k), ef(n - 1) < 2 ** k))
        ba = Bytes(n, lambda j: ef(j))
        o = Obj(m.env['BitWriter'], {'_bytearray': ba, '_bit_pos': Sym(pos)})
        return [o, Sym(b)], {}, {'o': o, 'n': n, 'ef': ef, 'pos': pos, 'b': b}

    def post(self, it, ctx, result, st):
        o, n, ef, pos, b = st['o'], st['n'], st['ef'], st['pos'], st['b']
        ba = o.fields['_bytearray']
        pos1 = it.int_term(o.fields['_bit_pos'])
        T0 = 8 * (n - 1) + pos
        T1 = 8 * (ba.n - 1) + pos1
        yield ('one-more-bit', T1 == T0 + 1)
        yield ('RI/pos-range', z3.And(pos1 >= 1, pos1 <= 8, ba.n >= 1))
        for k in range(1, 9):
            yield (f'RI/high-bits-zero/{k}', z3.Implies(pos1 == k, z3.And(ba.elem(ba.n - 1) >= 0, ba.elem(ba.n - 1) < 2 ** k)))
        j = ctx.fresh(I, 'j')
        m = ctx.fresh(I, 'm')
        yield ('earlier-bits-unchanged', z3.Implies(z3.And(j >= 0, m >= 0, m < 8, 8 * j + m < T0), bitof(ba.elem(j), m) == bitof(ef(j), m)))
        yield ('new-bit-is-the-argument', z3.Implies(z3.And(j >= 0, m >= 0, m < 8, 8 * j + m == T0), bitof(ba.elem(j), m) == z3.If(b, 1, 0)))


class Read(Contract):
    relpath, qualname, name = BIO, 'BitReader.read', 'BitReader.read'
    frame_fields = (('BitReader', '_bit_pos'), ('BitReader', '_byte_pos'))

    def setup(self, it, ctx):
        m = it.load_module('cirbo.circuits_db.bit_io')
        n = z3.Int('n')
        ef = z3.Function('bytes0', I, I)
        bp, pos = z3.Ints('byte_pos bit_pos')
        i = z3.Int('i!b')
        ctx.assume(z3.And(n >= 0, pos >= 0, pos <= 7, bp >= 0))
        ctx.assume(z3.ForAll([i], z3.And(ef(i) >= 0, ef(i) < 256)))
        data = Bytes(n, lambda j: ef(j))
        o = Obj(m.env['BitReader'], {'_bytes': data, '_byte_pos': Sym(bp), '_bit_pos': Sym(pos)})
        return [o], {}, {'o': o, 'n': n, 'ef': ef, 'bp': bp, 'pos': pos}

    def post(self, it, ctx, result, st):
        o, ef, bp, pos = st['o'], st['ef'], st['bp'], st['pos']
        r = it.truth(result)
        r = z3.BoolVal(r) if isinstance(r, bool) else r
        yield ('returns-current-bit', r == (bitof(ef(bp), pos) == 1))
        bp1, pos1 = it.int_term(o.fields['_byte_pos']), it.int_term(o.fields['_bit_pos'])
        yield ('advances-by-one', z3.And(8 * bp1 + pos1 == 8 * bp + pos + 1, pos1 >= 0, pos1 <= 7))
        yield ('only-inside-data', bp < st['n'])

    def on_raise(self, it, ctx, exc, st):
        nme = exc.cls.name if isinstance(exc, Obj) else repr(exc)
        if nme == 'BitIOError':
            yield ('raises-exactly-at-end', st['bp'] >= st['n'], {'raised': nme})
        else:
            yield ('no-other-raise', z3.BoolVal(False), {'raised': nme, 'witness': 'raises-' + nme})


class WriteNumber(Write):
    """write_number(number, k) for concrete k on an ARBITRARY writer state: raises BitIOError iff number is outside
    [0, 2^k) (writer untouched), otherwise appends exactly the k little-endian bits of number to the bit stream
    (stated on the byte array, so any correct way of producing the bytes satisfies it)"""
    qualname = 'BitWriter.write_number'

    def __init__(self, bits):
        self.bits = bits
        self.name = f'BitWriter.write_number/{bits}bits'

    def setup(self, it, ctx):
        args, kw, st = Write.setup(self, it, ctx)
        num = z3.Int('number')
        st['num'] = num
        return [args[0], Sym(num), self.bits], {}, st

    def post(self, it, ctx, result, st):
        o, n, ef, pos, num = st['o'], st['n'], st['ef'], st['pos'], st['num']
        k = self.bits
        ba = o.fields['_bytearray']
        pos1 = it.int_term(o.fields['_bit_pos'])
        T0 = 8 * (n - 1) + pos
        T1 = 8 * (ba.n - 1) + pos1
        yield ('accepted-only-in-range', z3.And(num >= 0, num < 2 ** k))
        yield ('k-more-bits', T1 == T0 + k)
        yield ('RI/pos-range', z3.And(pos1 >= 1, pos1 <= 8, z3.Implies(ba.n == 0, pos1 == 8)))
        for q in range(1, 9):
            yield (f'RI/high-bits-zero/{q}', z3.Implies(z3.And(ba.n > 0, pos1 == q), z3.And(ba.elem(ba.n - 1) >= 0, ba.elem(ba.n - 1) < 2 ** q)))
        j = ctx.fresh(I, 'j')
        m = ctx.fresh(I, 'm')
        yield ('earlier-bits-unchanged', z3.Implies(z3.And(j >= 0, m >= 0, m < 8, 8 * j + m < T0), bitof(ba.elem(j), m) == bitof(ef(j), m)))
        for i in range(k):
            yield (f'bit{i}-little-endian', z3.Implies(z3.And(j >= 0, m >= 0, m < 8, 8 * j + m == T0 + i), bitof(ba.elem(j), m) == (num / (2 ** i)) % 2), {'witness': 'number-bits'})

    def on_raise(self, it, ctx, exc, st):
        nme = exc.cls.name if isinstance(exc, Obj) else repr(exc)
        num = st['num']
        if nme == 'BitIOError':
            yield ('rejected-only-out-of-range', z3.Or(num < 0, num >= 2 ** self.bits), {'raised': nme})
            ba = st['o'].fields['_bytearray']
            yield ('writer-untouched', z3.And(ba.n == st['n'], it.int_term(st['o'].fields['_bit_pos']) == st['pos']))
        else:
            yield ('no-other-raise', z3.BoolVal(False), {'raised': nme, 'witness': 'raises-' + nme})


class ReadNumber(Read):
    """read_number(k) for concrete k on an ARBITRARY reader state: with at least k bits left it returns the number whose
    little-endian bits are the next k bits of the stream and advances by exactly k bits; it raises BitIOError exactly
    when fewer than k bits are left"""
    qualname = 'BitReader.read_number'

    def __init__(self, bits):
        self.bits = bits
        self.name = f'BitReader.read_number/{bits}bits'

    def setup(self, it, ctx):
        args, kw, st = Read.setup(self, it, ctx)
        return [args[0], self.bits], {}, st

    @staticmethod
    def stream_bit(ef, t):
        """bit number t (0-based) of the byte stream ef: bit t % 8 of byte t // 8"""
        return bitof(ef(t / 8), t % 8)

    def post(self, it, ctx, result, st):
        o, ef, bp, pos, n = st['o'], st['ef'], st['bp'], st['pos'], st['n']
        k = self.bits
        r = it.int_term(result)
        T0 = 8 * bp + pos
        bp1, pos1 = it.int_term(o.fields['_byte_pos']), it.int_term(o.fields['_bit_pos'])
        yield ('value-is-the-next-k-bits-little-endian', r == z3.Sum([self.stream_bit(ef, T0 + i) * (2 ** i) for i in range(k)] + [z3.IntVal(0)]), {'witness': 'number-bits'})
        yield ('advances-by-k', z3.And(8 * bp1 + pos1 == T0 + k, pos1 >= 0, pos1 <= 7))
        if k > 0:          # (k = 0 reads nothing, so nothing is known about the position)
            yield ('only-inside-data', T0 + k <= 8 * n)
        yield ('result-is-int-in-range', z3.And(r >= 0, r < 2 ** k))

    def on_raise(self, it, ctx, exc, st):
        nme = exc.cls.name if isinstance(exc, Obj) else repr(exc)
        if nme == 'BitIOError':
            yield ('raises-only-when-fewer-than-k-bits-left', 8 * st['bp'] + st['pos'] + self.bits > 8 * st['n'], {'raised': nme})
        else:
            yield ('no-other-raise', z3.BoolVal(False), {'raised': nme, 'witness': 'raises-' + nme})


# ---------------------------------------------------------------- every width (loop invariants) ----------
def sbit(ef, t):
    """bit number t >= 0 of the byte stream ef (abstract view of the writer / reader data): bit t % 8 of byte t // 8"""
    return bitof(ef(t / 8), t % 8)


def writer_ri(n, ef, pos, i):
    """representation invariant of BitWriter over the byte index variable i"""
    out = [('shape', z3.And(n >= 0, pos >= 1, pos <= 8, z3.Implies(n == 0, pos == 8))), ('bytes', z3.And(ef(i) >= 0, ef(i) < 256))]
    out.append(('high-bits-zero', z3.And([z3.Implies(z3.And(n > 0, pos == k), ef(n - 1) < 2 ** k) for k in range(1, 9)])))
    return out


class WriteStream(Write):
    """BitWriter.write against the abstract bit-stream view (the contract used at the call site in write_number):
    T' = T + 1, bits below T unchanged, bit T = argument, representation invariant kept"""
    name = 'BitWriter.write/stream-view'

    def post(self, it, ctx, result, st):
        o, n, ef, pos, b = st['o'], st['n'], st['ef'], st['pos'], st['b']
        ba = o.fields['_bytearray']
        pos1 = it.int_term(o.fields['_bit_pos'])
        t, i = ctx.fresh(I, 't'), ctx.fresh(I, 'i')
        for nm, f in write_stream_post(n, ef, pos, z3.If(b, 1, 0), ba.n, ba.elem, pos1, t, i):
            yield (nm, f)


def write_stream_post(n, ef, pos, bit, n1, ef1, pos1, t, i):
    T0 = 8 * (n - 1) + pos
    out = [('one-more-bit', 8 * (n1 - 1) + pos1 == T0 + 1),
           ('earlier-bits-unchanged', z3.Implies(z3.And(t >= 0, t < T0), sbit(ef1, t) == sbit(ef, t))),
           ('new-bit-is-the-argument', sbit(ef1, T0) == bit)]
    out += [('RI/' + nm, f) for nm, f in writer_ri(n1, ef1, pos1, i)]
    return out


_WN = [0]


def assume_forall(ctx, vars_, body):
    """remember a universal fact; goals ask for its instances at their own skolem constants (instantiate_at). The
    quantified formula itself is not handed to the solver: fewer hypotheses (sound), and no quantifier to diverge on"""
    if not hasattr(ctx, 'universals'):
        ctx.universals = []
    ctx.universals.append((vars_, body))


def instantiate_at(ctx, t, i):
    """instances of every remembered universal at the stream position t and the byte index i (pure instantiation hints)"""
    for vars_, body in getattr(ctx, 'universals', []):
        sub = [(v, t if str(v).startswith('t!') else i) for v in vars_]
        ctx.assume(z3.substitute(body, *sub))


def install_write_contract(it):
    """modular call rule for BitWriter.write inside write_number (body proved: C16/BitWriter.write/stream-view/*)"""
    def handler(it_, fv, args, kwargs):
        o = args[0]
        bit = args[1] if len(args) > 1 else kwargs['bit']
        ba = o.fields['_bytearray']
        ctx = it_.ctx
        n, ef, pos = ba.n, ba.elem, it_.int_term(o.fields['_bit_pos'])
        isk = ctx.fresh(I, 'ipre')
        instantiate_at(ctx, ctx.fresh(I, 'tpre'), isk)
        for nm, f in writer_ri(n, ef, pos, isk):
            ctx.check('write/pre/RI/' + nm, f)
        bt = it_.truth(bit)
        bt = z3.BoolVal(bt) if isinstance(bt, bool) else it_.as_bool_term(bt)
        _WN[0] += 1
        n1, pos1 = ctx.fresh(I, 'wn'), ctx.fresh(I, 'wpos')
        ef1 = z3.Function(f'wbytes!{_WN[0]}', I, I)
        t, i = z3.Int('t!w'), z3.Int('i!w')
        for nm, f in write_stream_post(n, ef, pos, z3.If(bt, 1, 0), n1, ef1, pos1, t, i):
            if nm.startswith(('earlier', 'RI/bytes')):
                assume_forall(ctx, [t, i], f)
            else:
                ctx.assume(f)
        o.fields['_bytearray'] = Bytes(n1, lambda j: ef1(j))
        o.fields['_bit_pos'] = Sym(pos1)
        return None
    it.contracts[BIO + '::BitWriter.write'] = handler


class WriteNumberLoop:
    """for i in range(bit_length): self.write(bool((number >> i) & 1))   — after i iterations the stream is the old
    stream followed by the i low bits of number"""

    def __init__(self, c):
        self.c = c

    def applies(self, it, env, iterable):
        return True

    def havoc(self, it, env):
        _WN[0] += 1
        ctx = it.ctx
        o = env['self']
        ef1 = z3.Function(f'lbytes!{_WN[0]}', I, I)
        o.fields['_bytearray'] = Bytes(ctx.fresh(I, 'ln'), lambda j: ef1(j))
        o.fields['_bit_pos'] = Sym(ctx.fresh(I, 'lpos'))

    def _f(self, it, env, k, t, i):
        st = self.c.st
        n, ef, pos, num = st['n'], st['ef'], st['pos'], st['num']
        o = env['self']
        ba = o.fields['_bytearray']
        n1, ef1, pos1 = ba.n, ba.elem, it.int_term(o.fields['_bit_pos'])
        T0 = 8 * (n - 1) + pos
        out = [('length', 8 * (n1 - 1) + pos1 == T0 + k),
               ('earlier-bits-unchanged', z3.Implies(z3.And(t >= 0, t < T0), sbit(ef1, t) == sbit(ef, t))),
               ('written-bits-are-the-low-bits', z3.Implies(z3.And(t >= T0, t < T0 + k), sbit(ef1, t) == (num / Pow2(t - T0)) % 2))]
        out += [('RI/' + nm, f) for nm, f in writer_ri(n1, ef1, pos1, i)]
        return out

    def inv(self, it, env, k):
        t, i = it.ctx.fresh(I, 'tl'), it.ctx.fresh(I, 'il')
        instantiate_at(it.ctx, t, i)
        return self._f(it, env, k, t, i)

    def inv_assume(self, it, env, k):
        t, i = z3.Int('t!l'), z3.Int('i!l')
        out = []
        for nm, f in self._f(it, env, k, t, i):
            if nm.startswith(('earlier', 'written', 'RI/bytes')):
                assume_forall(it.ctx, [t, i], f)
            else:
                out.append((nm, f))
        return out


def _pow2_background(self, it):
    from ..pyvc.lib import pow2_axioms
    return pow2_axioms([])


class WriteNumberAny(Write):
    background = _pow2_background
    """write_number(number, k) for EVERY k >= 0 on an arbitrary writer state: raises BitIOError iff number is outside
    [0, 2^k) (writer untouched); otherwise the stream grows by exactly k bits, the old bits are unchanged, bit T0 + j
    is bit j of number (j < k), and the representation invariant is kept"""
    qualname = 'BitWriter.write_number'
    name = 'BitWriter.write_number/every-width'

    def setup(self, it, ctx):
        args, kw, st = Write.setup(self, it, ctx)
        num, k = z3.Int('number'), z3.Int('k')
        ctx.assume(k >= 0)
        st['num'], st['k'] = num, k
        self.st = st
        install_write_contract(it)
        it.loop_specs[(BIO + '::BitWriter.write_number', 1)] = WriteNumberLoop(self)
        return [args[0], Sym(num), Sym(k)], {}, st

    def post(self, it, ctx, result, st):
        o, n, ef, pos, num, k = st['o'], st['n'], st['ef'], st['pos'], st['num'], st['k']
        ba = o.fields['_bytearray']
        pos1 = it.int_term(o.fields['_bit_pos'])
        T0 = 8 * (n - 1) + pos
        t, i = ctx.fresh(I, 't'), ctx.fresh(I, 'i')
        instantiate_at(ctx, t, i)
        yield ('accepted-only-in-range', z3.And(num >= 0, num < Pow2(k)))
        yield ('k-more-bits', 8 * (ba.n - 1) + pos1 == T0 + k)
        yield ('earlier-bits-unchanged', z3.Implies(z3.And(t >= 0, t < T0), sbit(ba.elem, t) == sbit(ef, t)))
        yield ('bit-j-of-number-at-T0+j', z3.Implies(z3.And(t >= T0, t < T0 + k), sbit(ba.elem, t) == (num / Pow2(t - T0)) % 2), {'witness': 'number-bits'})
        for nm, f in writer_ri(ba.n, ba.elem, pos1, i):
            yield ('RI/' + nm, f)

    def on_raise(self, it, ctx, exc, st):
        nme = exc.cls.name if isinstance(exc, Obj) else repr(exc)
        num, k = st['num'], st['k']
        if nme == 'BitIOError':
            yield ('rejected-only-out-of-range', z3.Or(num < 0, num >= Pow2(k)), {'raised': nme})
            ba = st['o'].fields['_bytearray']
            yield ('writer-untouched', z3.And(ba.n == st['n'], it.int_term(st['o'].fields['_bit_pos']) == st['pos']))
        else:
            yield ('no-other-raise', z3.BoolVal(False), {'raised': nme, 'witness': 'raises-' + nme})


RSf = z3.Function('RS', I, I)       # ghost spec function of read_number: RS(j) = sum_{q<j} streambit(T0+q) * 2^q


class ReadNumberLoop:
    """for i in range(bit_length): bit = self.read(); number |= bit << i"""

    def __init__(self, c):
        self.c = c

    def applies(self, it, env, iterable):
        return True

    def havoc(self, it, env):
        ctx = it.ctx
        o = env['self']
        o.fields['_byte_pos'] = Sym(ctx.fresh(I, 'lbp'))
        o.fields['_bit_pos'] = Sym(ctx.fresh(I, 'lpos'))
        env['number'] = Sym(ctx.fresh(I, 'lnum'))

    def inv(self, it, env, k):
        st = self.c.st
        n, ef, bp, pos = st['n'], st['ef'], st['bp'], st['pos']
        o = env['self']
        bp1, pos1 = it.int_term(o.fields['_byte_pos']), it.int_term(o.fields['_bit_pos'])
        num = it.int_term(env['number'])
        T0 = 8 * bp + pos
        return [('position', z3.And(8 * bp1 + pos1 == T0 + k, pos1 >= 0, pos1 <= 7, bp1 >= 0)),
                ('position/byte-and-bit', z3.And(bp1 == (T0 + k) / 8, pos1 == (T0 + k) % 8)),       # implied by 'position'; stated to spare the solver the div/mod step
                ('number-is-the-partial-sum', num == RSf(k)),
                ('number-below-2^i', z3.And(num >= 0, num < Pow2(k))),
                ('reads-were-inside-data', z3.Implies(k > 0, T0 + k <= 8 * n))]


class ReadNumberAny(Read):
    """read_number(k) for EVERY k >= 0 on an arbitrary reader state: returns RS(k) = sum_{j<k} streambit(T0+j) * 2^j (the
    next k bits as a little-endian number, in [0, 2^k)), advances by exactly k bits, never leaves the data; raises
    BitIOError exactly when fewer than k bits are left"""
    background = _pow2_background
    qualname = 'BitReader.read_number'
    name = 'BitReader.read_number/every-width'

    def setup(self, it, ctx):
        args, kw, st = Read.setup(self, it, ctx)
        k = z3.Int('k')
        ctx.assume(k >= 0)
        st['k'] = k
        self.st = st
        T0 = 8 * st['bp'] + st['pos']
        j = z3.Int('j!rs')
        # definition of the ghost spec function (recursion on j)
        ctx.assume(RSf(0) == 0)
        ctx.assume(z3.ForAll([j], z3.Implies(j >= 0, RSf(j + 1) == RSf(j) + z3.If(sbit(st['ef'], T0 + j) == 1, Pow2(j), 0)), patterns=[RSf(j + 1)]))
        it.loop_specs[(BIO + '::BitReader.read_number', 1)] = ReadNumberLoop(self)
        return [args[0], Sym(k)], {}, st

    def post(self, it, ctx, result, st):
        o, bp, pos, n, k = st['o'], st['bp'], st['pos'], st['n'], st['k']
        r = it.int_term(result)
        T0 = 8 * bp + pos
        bp1, pos1 = it.int_term(o.fields['_byte_pos']), it.int_term(o.fields['_bit_pos'])
        yield ('value-is-the-next-k-bits-little-endian', r == RSf(k), {'witness': 'number-bits'})
        yield ('advances-by-k', z3.And(8 * bp1 + pos1 == T0 + k, pos1 >= 0, pos1 <= 7))
        yield ('only-inside-data', z3.Implies(k > 0, T0 + k <= 8 * n))
        yield ('result-in-range', z3.And(r >= 0, r < Pow2(k)))

    def on_raise(self, it, ctx, exc, st):
        nme = exc.cls.name if isinstance(exc, Obj) else repr(exc)
        if nme == 'BitIOError':
            yield ('raises-only-when-fewer-than-k-bits-left', 8 * st['bp'] + st['pos'] + st['k'] > 8 * st['n'], {'raised': nme})
        else:
            yield ('no-other-raise', z3.BoolVal(False), {'raised': nme, 'witness': 'raises-' + nme})


def round_trip_lemmas(pv, widths):
    """the two contracts compose: the number read back from the k bits that write_number(n, k) appended is n
    (sum_i ((n div 2^i) mod 2) * 2^i = n for 0 <= n < 2^k)"""
    n = z3.Int('n')
    for k in widths:
        pv.add_raw(f'C16/round-trip/read_number(write_number(n,{k}))=n', 'BitWriter.write_number+BitReader.read_number', [n >= 0, n < 2 ** k],
                   z3.Sum([((n / (2 ** i)) % 2) * (2 ** i) for i in range(k)] + [z3.IntVal(0)]) == n, meta={'witness': 'round-trip'})


def table_obligations(rep, pv, it):
    m = it.load_module('cirbo.circuits_db.circuits_encoding')
    g2i = m.env['_gate_type_to_int']
    i2g = m.env.get('_int_to_gate_type')
    bits = m.env['GATE_TYPE_BIT_SIZE']
    names = {k.fields['_name']: v for k, v in g2i.d.items()}
    pv.add_raw('C16/_gate_type_to_int/injective-and-fits', '_gate_type_to_int', [],
               z3.BoolVal(len(set(names.values())) == len(names) and all(isinstance(v, int) and 0 <= v < 2 ** bits for v in names.values())))
    if i2g is not None:
        ok = all(i2g.d.get(v) is k for k, v in g2i.d.items()) and len(i2g.d) == len(g2i.d)
        pv.add_raw('C16/_int_to_gate_type/inverse-of-_gate_type_to_int', '_int_to_gate_type', [], z3.BoolVal(ok))
    from ..pyvc.interp import Ctx
    f = m.env['_get_arity']
    for k in g2i.d:
        it.ctx = Ctx([])
        a = it.call(f, [k], {})
        t = k.fields['_name']
        want = 1 if t in ('NOT', 'IFF') else 2
        pv.add_raw(f'C16/_get_arity/{t}', '_get_arity', [], z3.BoolVal(a == want), meta={'witness': 'arity-table'})


def run(rep):
    quick = env.TIER != 'thorough'
    rep.trusted_base = list(STD_TRUSTED)
    for a in STD_ASSUME:
        rep.assume(a)
    rep.assume('write_number / read_number are proved for EVERY width k >= 0 by loop invariants over the bit-stream view (and once more, with counter-models for broken variants, for the widths {0,1,2,3,7,8,9,12} with the loops unrolled); '
               'that reading back what write_number(n, k) wrote gives n (sum_j (n div 2^j mod 2) 2^j = n mod 2^k) is the Lean lemma read_write_number of lean/Background.lean for every k and an SMT obligation for the listed widths; '
               'record framing of binary_dict_io, word-size adequacy and the per-circuit round trip are covered by the bounded stand-in only')
    rep.assume('nonlinear terms: number >> k is number div pow2(k) with pow2 axiomatised (pow2(0)=1, pow2(i+1)=2 pow2(i), pow2(i)>=1); precondition k >= 0 (a negative width raises ValueError in CPython)')
    rep.assume('background lemma: x | (b*2^k) = x + b*2^k when 0 <= x < 2^k (its side condition is an obligation)')
    it = new_interp()
    pv = Prover(rep, it, 'C16')
    pv.run_contract(Write())
    pv.run_contract(Read())
    widths = (0, 1, 2, 3, 7, 8, 9, 12)
    for bits in widths:
        pv.run_contract(WriteNumber(bits))
    for bits in widths:
        pv.run_contract(ReadNumber(bits))
    round_trip_lemmas(pv, widths)
    # every width: loop invariants over the abstract bit-stream view; write() by its (proved) stream contract
    pv.run_contract(WriteStream())
    pv.run_contract(WriteNumberAny())
    it.contracts.clear()
    it.loop_specs.clear()
    pv.run_contract(ReadNumberAny())
    it.loop_specs.clear()
    it.contracts.clear()
    table_obligations(rep, pv, it)
    # per-gate step of the circuit codec (numbers written / read through the proved write_number / read_number contracts)
    from . import c16_gate
    for c in c16_gate.contracts(it):
        pv.run_contract(c)
    c16_gate.round_trip(pv, it)
    it.contracts.clear()
    it.loop_specs.clear()
    from . import c16_enum
    pv.run_contract(c16_enum.EnumerateGates())
    it.contracts.clear()
    it.loop_specs.clear()
    from . import c16_body
    pv.run_contract(c16_body.EncodeBody())
    it.contracts.clear()
    it.loop_specs.clear()
    pv.run_contract(c16_body.DecodeBody())
    it.contracts.clear()
    it.loop_specs.clear()
    rt_hyps = c16_body.circuit_round_trip(pv)
    from ..pyvc import solve as _solve
    pv.guards.append(('C16/circuit-round-trip/vacuity-guard', _solve.to_smt2(list(rt_hyps), z3.BoolVal(False)), False, 'guard'))       # contradictory hypotheses would prove everything
    x = z3.Int('x')
    canary(rep, pv, 'C16/canary/bit7-is-bit0', [x >= 0, x < 256], bitof(x, z3.IntVal(7)) == bitof(x, z3.IntVal(0)))
    refuted = pv.discharge(env.NPROC)
    finish_refuted(rep, pv, refuted)
    run_bounded(rep, 'C16', quick)
    rep.extra['explanation'] = 'single-step contracts of the bit writer/reader, write_number / read_number for every width (loop invariants) and their round trip, and the code tables proved from the real source; records and circuits: bounded stand-in.'

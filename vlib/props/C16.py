"""C16  The database codec never silently changes a circuit.

P (all byte values, all positions): BitWriter.write appends exactly one bit to the bit stream and keeps the
   representation invariant of the writer; BitReader.read returns the bit at the current position and
   advances by one, raising BitIOError exactly at the end; write_number(n, k) for k in {0,1,2,3,7,8,9,12} on an arbitrary writer state rejects exactly the numbers
   that do not fit and otherwise appends the k little-endian bits; the gate-type code tables are mutually inverse and _get_arity is what the decoder reads.
B: whole bit strings / numbers, dictionary records, circuit round trips, database files (vlib/bounded/C16.py)."""
import z3

from .. import env
from ..pyvc.values import Sym, Obj, VList, Native, Unsupported
from ..pyvc.interp import Model, _simp
from ..pyvc.prove import Prover, Contract
from .common import new_interp, finish_refuted, canary, STD_TRUSTED, STD_ASSUME, run_bounded

LEVEL = 'other'
BIO = 'cirbo/circuits_db/bit_io.py'
ENC = 'cirbo/circuits_db/circuits_encoding.py'
I = z3.IntSort()


class Bytes(Model):
    """bytearray / bytes of symbolic length: n, elem(i) in [0,256)"""

    def __init__(self, n, elem):
        self.n, self.elem = n, elem

    def m_len(self, it):
        return Sym(self.n)

    def _idx(self, it, k):
        kt = it.int_term(k)
        if not it.ctx.choose(_simp(z3.And(kt >= -self.n, kt < self.n))):
            it.raise_('IndexError', 'index out of range')
        return z3.simplify(z3.If(kt < 0, kt + self.n, kt))

    def m_getitem(self, it, k):
        return Sym(self.elem(self._idx(it, k)))

    def m_setitem(self, it, k, v):
        i = self._idx(it, k)
        vt = it.int_term(v)
        it.ctx.check('byte-in-range', z3.And(vt >= 0, vt < 256), {'witness': 'byte-range'})
        old = self.elem
        self.elem = lambda j: z3.If(j == i, vt, old(j))

    def m_getattr(self, it, name):
        if name == 'append':
            def append(x):
                xt = it.int_term(x)
                n, old = self.n, self.elem
                self.elem = lambda j: z3.If(j == n, xt, old(j))
                self.n = n + 1
            return Native('bytearray.append', append)
        raise Unsupported('bytearray.' + name)


def bitof(byte, m):
    """(byte >> m) & 1 for m in 0..7 as linear arithmetic"""
    r = (byte / 128) % 2
    for k in range(6, -1, -1):
        r = z3.If(m == k, (byte / (2 ** k)) % 2, r)
    return r


class Write(Contract):
    relpath, qualname, name = BIO, 'BitWriter.write', 'BitWriter.write'

    def setup(self, it, ctx):
        m = it.load_module('cirbo.circuits_db.bit_io')
        n = z3.Int('n')
        ef = z3.Function('bytes0', I, I)
        pos = z3.Int('pos')
        b = z3.Bool('bit')
        i = z3.Int('i!b')
        # representation invariant of the writer
        ctx.assume(z3.And(n >= 0, pos >= 1, pos <= 8, z3.Implies(n == 0, pos == 8)))
        ctx.assume(z3.ForAll([i], z3.And(ef(i) >= 0, ef(i) < 256)))
        for k in range(1, 9):
            ctx.assume(z3.Implies(z3.And(n > 0, pos == k), ef(n - 1) < 2 ** k))
        ba = Bytes(n, lambda j: ef(j))
        o = Obj(m.env['BitWriter'], {'_bytearray': ba, '_bit_pos': Sym(pos)})
        return [o, Sym(b)], {}, {'o': o, 'n': n, 'ef': ef, 'pos': pos, 'b': b}

    def post(self, it, ctx, result, st):
        o, n, ef, pos, b = st['o'], st['n'], st['ef'], st['pos'], st['b']
        ba = o.fields['_bytearray']
        pos1 = it.int_term(o.fields['_bit_pos'])
        T0 = 8 * (n - 1) + pos
        T1 = 8 * (ba.n - 1) + pos1
        yield ('one-more-bit', T1 == T0 + 1)
        yield ('RI/pos-range', z3.And(pos1 >= 1, pos1 <= 8, ba.n >= 1))
        for k in range(1, 9):
            yield (f'RI/high-bits-zero/{k}', z3.Implies(pos1 == k, z3.And(ba.elem(ba.n - 1) >= 0, ba.elem(ba.n - 1) < 2 ** k)))
        j = ctx.fresh(I, 'j')
        m = ctx.fresh(I, 'm')
        yield ('earlier-bits-unchanged', z3.Implies(z3.And(j >= 0, m >= 0, m < 8, 8 * j + m < T0), bitof(ba.elem(j), m) == bitof(ef(j), m)))
        yield ('new-bit-is-the-argument', z3.Implies(z3.And(j >= 0, m >= 0, m < 8, 8 * j + m == T0), bitof(ba.elem(j), m) == z3.If(b, 1, 0)))


class Read(Contract):
    relpath, qualname, name = BIO, 'BitReader.read', 'BitReader.read'

    def setup(self, it, ctx):
        m = it.load_module('cirbo.circuits_db.bit_io')
        n = z3.Int('n')
        ef = z3.Function('bytes0', I, I)
        bp, pos = z3.Ints('byte_pos bit_pos')
        i = z3.Int('i!b')
        ctx.assume(z3.And(n >= 0, pos >= 0, pos <= 7, bp >= 0))
        ctx.assume(z3.ForAll([i], z3.And(ef(i) >= 0, ef(i) < 256)))
        data = Bytes(n, lambda j: ef(j))
        o = Obj(m.env['BitReader'], {'_bytes': data, '_byte_pos': Sym(bp), '_bit_pos': Sym(pos)})
        return [o], {}, {'o': o, 'n': n, 'ef': ef, 'bp': bp, 'pos': pos}

    def post(self, it, ctx, result, st):
        o, ef, bp, pos = st['o'], st['ef'], st['bp'], st['pos']
        r = it.truth(result)
        r = z3.BoolVal(r) if isinstance(r, bool) else r
        yield ('returns-current-bit', r == (bitof(ef(bp), pos) == 1))
        bp1, pos1 = it.int_term(o.fields['_byte_pos']), it.int_term(o.fields['_bit_pos'])
        yield ('advances-by-one', z3.And(8 * bp1 + pos1 == 8 * bp + pos + 1, pos1 >= 0, pos1 <= 7))
        yield ('only-inside-data', bp < st['n'])

    def on_raise(self, it, ctx, exc, st):
        nme = exc.cls.name if isinstance(exc, Obj) else repr(exc)
        if nme == 'BitIOError':
            yield ('raises-exactly-at-end', st['bp'] >= st['n'], {'raised': nme})
        else:
            yield ('no-other-raise', z3.BoolVal(False), {'raised': nme, 'witness': 'raises-' + nme})


class WriteNumber(Write):
    """write_number(number, k) for concrete k on an ARBITRARY writer state: raises BitIOError iff number is outside
    [0, 2^k) (writer untouched), otherwise appends exactly the k little-endian bits of number to the bit stream
    (stated on the byte array, so any correct way of producing the bytes satisfies it)"""
    qualname = 'BitWriter.write_number'

    def __init__(self, bits):
        self.bits = bits
        self.name = f'BitWriter.write_number/{bits}bits'

    def setup(self, it, ctx):
        args, kw, st = Write.setup(self, it, ctx)
        num = z3.Int('number')
        st['num'] = num
        return [args[0], Sym(num), self.bits], {}, st

    def post(self, it, ctx, result, st):
        o, n, ef, pos, num = st['o'], st['n'], st['ef'], st['pos'], st['num']
        k = self.bits
        ba = o.fields['_bytearray']
        pos1 = it.int_term(o.fields['_bit_pos'])
        T0 = 8 * (n - 1) + pos
        T1 = 8 * (ba.n - 1) + pos1
        yield ('accepted-only-in-range', z3.And(num >= 0, num < 2 ** k))
        yield ('k-more-bits', T1 == T0 + k)
        yield ('RI/pos-range', z3.And(pos1 >= 1, pos1 <= 8, z3.Implies(ba.n == 0, pos1 == 8)))
        for q in range(1, 9):
            yield (f'RI/high-bits-zero/{q}', z3.Implies(z3.And(ba.n > 0, pos1 == q), z3.And(ba.elem(ba.n - 1) >= 0, ba.elem(ba.n - 1) < 2 ** q)))
        j = ctx.fresh(I, 'j')
        m = ctx.fresh(I, 'm')
        yield ('earlier-bits-unchanged', z3.Implies(z3.And(j >= 0, m >= 0, m < 8, 8 * j + m < T0), bitof(ba.elem(j), m) == bitof(ef(j), m)))
        for i in range(k):
            yield (f'bit{i}-little-endian', z3.Implies(z3.And(j >= 0, m >= 0, m < 8, 8 * j + m == T0 + i), bitof(ba.elem(j), m) == (num / (2 ** i)) % 2), {'witness': 'number-bits'})

    def on_raise(self, it, ctx, exc, st):
        nme = exc.cls.name if isinstance(exc, Obj) else repr(exc)
        num = st['num']
        if nme == 'BitIOError':
            yield ('rejected-only-out-of-range', z3.Or(num < 0, num >= 2 ** self.bits), {'raised': nme})
            ba = st['o'].fields['_bytearray']
            yield ('writer-untouched', z3.And(ba.n == st['n'], it.int_term(st['o'].fields['_bit_pos']) == st['pos']))
        else:
            yield ('no-other-raise', z3.BoolVal(False), {'raised': nme, 'witness': 'raises-' + nme})


def table_obligations(rep, pv, it):
    m = it.load_module('cirbo.circuits_db.circuits_encoding')
    g2i = m.env['_gate_type_to_int']
    i2g = m.env.get('_int_to_gate_type')
    bits = m.env['GATE_TYPE_BIT_SIZE']
    names = {k.fields['_name']: v for k, v in g2i.d.items()}
    pv.add_raw('C16/_gate_type_to_int/injective-and-fits', '_gate_type_to_int', [],
               z3.BoolVal(len(set(names.values())) == len(names) and all(isinstance(v, int) and 0 <= v < 2 ** bits for v in names.values())))
    if i2g is not None:
        ok = all(i2g.d.get(v) is k for k, v in g2i.d.items()) and len(i2g.d) == len(g2i.d)
        pv.add_raw('C16/_int_to_gate_type/inverse-of-_gate_type_to_int', '_int_to_gate_type', [], z3.BoolVal(ok))
    from ..pyvc.interp import Ctx
    f = m.env['_get_arity']
    for k in g2i.d:
        it.ctx = Ctx([])
        a = it.call(f, [k], {})
        t = k.fields['_name']
        want = 1 if t in ('NOT', 'IFF') else 2
        pv.add_raw(f'C16/_get_arity/{t}', '_get_arity', [], z3.BoolVal(a == want), meta={'witness': 'arity-table'})


def run(rep):
    quick = env.TIER != 'thorough'
    rep.trusted_base = list(STD_TRUSTED)
    for a in STD_ASSUME:
        rep.assume(a)
    rep.assume('the loops of write_number / read_number, record framing of binary_dict_io, word-size adequacy and the per-circuit round trip are covered by the bounded stand-in only')
    rep.assume('background lemma: x | (b*2^k) = x + b*2^k when 0 <= x < 2^k (its side condition is an obligation)')
    it = new_interp()
    pv = Prover(rep, it, 'C16')
    pv.run_contract(Write())
    pv.run_contract(Read())
    for bits in (0, 1, 2, 3, 7, 8, 9, 12):
        pv.run_contract(WriteNumber(bits))
    it.contracts.clear()
    table_obligations(rep, pv, it)
    x = z3.Int('x')
    canary(rep, pv, 'C16/canary/bit7-is-bit0', [x >= 0, x < 256], bitof(x, z3.IntVal(7)) == bitof(x, z3.IntVal(0)))
    refuted = pv.discharge(env.NPROC)
    finish_refuted(rep, pv, refuted)
    run_bounded(rep, 'C16', quick)
    rep.extra['explanation'] = 'single-step contracts of the bit writer/reader, the range check of write_number and the code tables proved from the real source; streams, records and circuits: bounded stand-in.'

"""C16  The database codec never silently changes a circuit

P: (deductive obligations for this property are added in vlib/props/C16.py as they are built)
B: vlib/bounded/C16.py (bounded stand-in; never counted as proved)."""
from .. import env
from .common import STD_TRUSTED, STD_ASSUME, run_bounded

LEVEL = 'exploration'


def run(rep):
    quick = env.TIER != 'thorough'
    rep.trusted_base = list(STD_TRUSTED)
    run_bounded(rep, 'C16', quick)
    rep.extra['explanation'] = 'bounded stand-in only in this build'

"""C05  tseytin_transformation on an ARBITRARY well-formed circuit (any number of gates, inputs, outputs, any sharing;
gate arities: the fixed ones, n-ary gates with 2 or 3 operands, constants without operands) and any selection of outputs.

State of the transformation (abstract view): saved(l) / lit(l) (the defaultdict saved_lits), N (next_lit), the CNF seen as
its truth value `sat` under an arbitrary fixed valuation val of the CNF variables.  Invariant INV:
  S1 saved gates exist and 1 <= lit <= N          S2 lit is injective on saved gates
  S3 the i-th input is saved with literal i+1     S4 saved non-input gates have all operands saved
  S5 sat  <=>  (every saved non-input gate g satisfies G(g): val(lit g) = OP(type g)(val(lit operands)))
               and (every output selected so far is true under val)          S6 selected outputs are saved
Loop 1 (inputs) establishes it, loop 2 (selected outputs) keeps it; the memoised recursion process_gate(label) is verified
against its CONTRACT, which the recursive calls on the operands use (rule: partial correctness of recursive procedures):
  pre  INV(S1-S4), label is a gate
  post saved grows, old literals kept, label saved, result = lit(label), INV(S1-S4), new gates lie in the cone of label
       (rank), sat' <=> sat and G(g) for every newly saved g.
At the end: sat <=> all saved gates obey their equations and all selected outputs are true, inputs are variables 1..n.
With injective literals and a DAG, rule R2 turns this into the statement of C05 (exactness, evaluated values)."""
import z3

from ..pyvc.values import Sym, LabelSort, GT, Obj, VList, VDict, Unsupported
from ..pyvc.interp import Model, _simp
from ..pyvc.models import SymSeq, Valuation, CnfView, PathEnd
from ..pyvc import circuit_model as CM
from ..pyvc import theory
from ..spec import ops as S
from .C02 import CircuitContract

I = z3.IntSort()
B = z3.BoolSort()
TS = 'cirbo/sat/cnf/tseytin.py'
PG = TS + '::tseytin_transformation.process_gate'
_K = [0]


def arities(t):
    if t in S.NARY:
        return [2, 3]
    if t in S.BINARY:
        return [2]
    if t in S.UNARY:
        return [1]
    return [0]


INSTANCES = [(t, a) for t in S.GATE_TYPES if t != 'INPUT' for a in arities(t)]
G_INSTANCES = list(INSTANCES)      # the (type, arity) pairs the gate equation G speaks about (extended in the thorough tier)


class LitMap(Model):
    """saved_lits: defaultdict(label -> literal) in functional form; a miss calls the REAL factory closure"""

    def __init__(self, sd, sv, factory):
        self.sd, self.sv, self.factory = sd, sv, factory

    def m_contains(self, it, k):
        return _simp(self.sd(it.label_term(k)))

    def m_getitem(self, it, k):
        kt = it.label_term(k)
        if it.ctx.choose(_simp(self.sd(kt))):
            return Sym(self.sv(kt))
        v = it.int_term(it.call(self.factory, [], {}))
        osd, osv = self.sd, self.sv
        self.sd = lambda l: z3.Or(l == kt, osd(l))
        self.sv = lambda l: z3.If(l == kt, v, osv(l))
        return Sym(v)


def view(it, env, val):
    """(sd, sv, N, sat) of the transformation state held in the environment of tseytin_transformation"""
    lm = env['saved_lits']
    if isinstance(lm, VDict):
        keys = [(it.label_term(k), it.int_term(v)) for k, v in lm.d.items()]
        sd = lambda l: z3.Or([l == k for k, _ in keys]) if keys else z3.BoolVal(False)

        def sv(l):
            r = z3.IntVal(0)
            for k, v in keys:
                r = z3.If(l == k, v, r)
            return r
    else:
        sd, sv = lm.sd, lm.sv
    cnf = env.get('cnf')
    if cnf is None:
        sat = z3.BoolVal(True)
    elif isinstance(cnf, CnfView):
        sat = cnf.sat
    else:
        sat = z3.And([z3.Or([val.lit(it, x) for x in c.items]) if c.items else z3.BoolVal(False) for c in cnf.items]) if cnf.items else z3.BoolVal(True)
    return sd, sv, it.int_term(env['next_lit']), sat


def G(S0, val, sv, u):
    """the gate equation of u under the valuation: val(lit u) = OP(type u)(val(lit operands)) for the arities under contract"""
    out = []
    for t, a in G_INSTANCES:
        ops = [val.f(sv(S0.op(u, z3.IntVal(j)))) for j in range(a)]
        out.append(z3.Implies(z3.And(S0.typ(u) == GT[t], S0.nops(u) == a), val.f(sv(u)) == theory.OPz(t, ops)))
    return z3.And(out)


def nonin(S0, l):
    return S0.typ(l) != GT['INPUT']


def inv_clauses(S0, sd, sv, N, l, l2, i):
    return [('S0/next-literal-non-negative', N >= 0),
            ('S1/saved-gates-exist-lits-in-range', z3.Implies(sd(l), z3.And(S0.dom(l), sv(l) >= 1, sv(l) <= N))),
            ('S2/literals-injective', z3.Implies(z3.And(sd(l), sd(l2), sv(l) == sv(l2)), l == l2)),
            ('S3/input-i-is-variable-i+1', z3.Implies(z3.And(i >= 0, i < S0.in_n), z3.And(sd(S0.in_elem(i)), sv(S0.in_elem(i)) == i + 1))),
            ('S4/operands-of-saved-gates-saved', z3.Implies(z3.And(sd(l), nonin(S0, l), i >= 0, i < S0.nops(l)), sd(S0.op(l, i))))]


def assume_inv(ctx, S0, sd, sv, N):
    l, l2 = z3.Consts('l!inv l2!inv', LabelSort)
    i = z3.Int('i!inv')
    for nm, f in inv_clauses(S0, sd, sv, N, l, l2, i):
        ctx.assume(z3.ForAll([l, l2, i], f))


def check_inv(ctx, S0, sd, sv, N, prefix):
    l, l2 = ctx.fresh(LabelSort, 'lc'), ctx.fresh(LabelSort, 'l2c')
    i = ctx.fresh(I, 'ic')
    for nm, f in inv_clauses(S0, sd, sv, N, l, l2, i):
        ctx.check(prefix + nm, f)


def fresh_state(ctx):
    _K[0] += 1
    sdf = z3.Function(f'saved!{_K[0]}', LabelSort, B)
    svf = z3.Function(f'lit!{_K[0]}', LabelSort, I)
    return (lambda l: sdf(l)), (lambda l: svf(l)), ctx.fresh(I, 'N'), ctx.fresh(B, 'sat')


def install(it, env, val, sd, sv, N, sat):
    lm = env['saved_lits']
    factory = lm.default_factory if isinstance(lm, VDict) else lm.factory
    env['saved_lits'] = LitMap(sd, sv, factory)
    env['next_lit'] = Sym(N)
    if env.get('cnf') is not None:
        env['cnf'] = CnfView(val, sat, it.ctx.fresh(I, 'ncl'))


def rel_clauses(S0, val, old, new, lt, l, l2, i):
    """post-condition of process_gate(lt) as a relation between the state before (old) and after (new)"""
    sd, sv, N, sat = old
    sd1, sv1, N1, sat1 = new
    newly = lambda x: z3.And(sd1(x), z3.Not(sd(x)))
    out = [('R1/saved-grows-literals-kept', z3.And(z3.Implies(sd(l), z3.And(sd1(l), sv1(l) == sv(l))), N <= N1)),
           ('R2/label-saved', sd1(lt))]
    out += [('R3/' + nm, f) for nm, f in inv_clauses(S0, sd1, sv1, N1, l, l2, i)]
    out += [('R4/new-gates-in-the-cone', z3.Implies(newly(l), z3.And(S0.rank(l) <= S0.rank(lt), nonin(S0, l)))),
            ('R5a/clauses-only-added', z3.Implies(sat1, sat)),
            ('R5b/new-gates-constrained', z3.Implies(z3.And(sat1, newly(l)), G(S0, val, sv1, l)))]
    return out, newly


def r5c(S0, val, old, new):
    sd, sv, N, sat = old
    sd1, sv1, N1, sat1 = new
    x = z3.Const('x!r5c', LabelSort)
    return z3.Implies(z3.And(sat, z3.ForAll([x], z3.Implies(z3.And(sd1(x), z3.Not(sd(x))), G(S0, val, sv1, x)))), sat1)


class InputsLoop:
    """for input_label in circuit.inputs: _ = saved_lits[input_label]"""

    def __init__(self, c):
        self.c = c

    def applies(self, it, env, iterable):
        return True

    def havoc(self, it, env):
        sd, sv, N, sat = fresh_state(it.ctx)
        install(it, env, self.c.val, sd, sv, N, sat)

    def _f(self, it, env, k, l, i):
        S0 = self.c.S0
        sd, sv, N, sat = view(it, env, self.c.val)
        return [('next-literal', N == k),
                ('seen-inputs-numbered', z3.Implies(z3.And(i >= 0, i < k), z3.And(sd(S0.in_elem(i)), sv(S0.in_elem(i)) == i + 1))),
                ('only-seen-inputs-saved', z3.Implies(sd(l), z3.And(S0.in_cnt(l) > 0, sv(l) >= 1, sv(l) <= k, S0.in_elem(sv(l) - 1) == l)))]

    def inv(self, it, env, k):
        return self._f(it, env, k, it.ctx.fresh(LabelSort, 'll1'), it.ctx.fresh(I, 'il1'))

    def inv_assume(self, it, env, k):
        l, i = z3.Const('l!l1', LabelSort), z3.Int('i!l1')
        return [(nm, z3.ForAll([l, i], f) if nm != 'next-literal' else f) for nm, f in self._f(it, env, k, l, i)]


class OutputsLoop:
    """for output_index in outputs: output_lit = process_gate(circuit.output_at_index(output_index)); cnf.append([output_lit])"""

    def __init__(self, c):
        self.c = c

    def applies(self, it, env, iterable):
        self.seq = iterable
        return True

    def havoc(self, it, env):
        if env.get('cnf') is None:
            raise Unsupported('cnf not created before the outputs loop')
        sd, sv, N, sat = fresh_state(it.ctx)
        install(it, env, self.c.val, sd, sv, N, sat)

    def sel(self, it, j):
        """label of the j-th selected output"""
        e = self.seq.elem(j)
        e = e.t if isinstance(e, Sym) else e
        return self.c.S0.out_elem(e)

    def _f(self, it, env, k, l, l2, i, j):
        S0, val = self.c.S0, self.c.val
        self.env = env
        sd, sv, N, sat = view(it, env, val)
        out = list(inv_clauses(S0, sd, sv, N, l, l2, i))
        out.append(('S6/selected-outputs-saved', z3.Implies(z3.And(j >= 0, j < k), sd(self.sel(it, j)))))
        out.append(('S5a/sat-implies-gate-equations', z3.Implies(z3.And(sat, sd(l), nonin(S0, l)), G(S0, val, sv, l))))
        out.append(('S5a/sat-implies-selected-outputs-true', z3.Implies(z3.And(sat, j >= 0, j < k), val.f(sv(self.sel(it, j))))))
        return out

    def s5b(self, it, env, k):
        S0, val = self.c.S0, self.c.val
        sd, sv, N, sat = view(it, env, val)
        x, y = z3.Const('x!s5b', LabelSort), z3.Int('y!s5b')
        return z3.Implies(z3.And(z3.ForAll([x], z3.Implies(z3.And(sd(x), nonin(S0, x)), G(S0, val, sv, x))),
                                 z3.ForAll([y], z3.Implies(z3.And(y >= 0, y < k), val.f(sv(self.sel(it, y)))))), sat)

    def inv(self, it, env, k):
        c = it.ctx
        return self._f(it, env, k, c.fresh(LabelSort, 'll2'), c.fresh(LabelSort, 'l2l2'), c.fresh(I, 'il2'), c.fresh(I, 'jl2')) + \
            [('S5b/equations-and-outputs-imply-sat', self.s5b(it, env, k))]

    def inv_assume(self, it, env, k):
        l, l2 = z3.Consts('l!l2 l2!l2', LabelSort)
        i, j = z3.Ints('i!l2 j!l2')
        return [(nm, z3.ForAll([l, l2, i, j], f)) for nm, f in self._f(it, env, k, l, l2, i, j)] + [('S5b', self.s5b(it, env, k))]


class TseytinAny(CircuitContract):
    """mode 'loops': the two loops of tseytin_transformation against INV, process_gate by its contract;
    mode (t, a) / 'saved': the body of process_gate against its contract for a gate of type t with a operands (resp. an
    already saved gate), recursive calls by the contract"""
    relpath, qualname = TS, 'tseytin_transformation'

    def __init__(self, mode, given_outputs=False):
        self.mode, self.given = mode, given_outputs
        if mode == 'loops':
            self.name = 'tseytin_transformation/any-circuit/loops/' + ('given-output-selection' if given_outputs else 'all-outputs')
        elif mode == 'saved':
            self.name = 'tseytin_transformation/any-circuit/process_gate/already-saved'
        else:
            self.name = f'tseytin_transformation/any-circuit/process_gate/{mode[0]}/arity{mode[1]}'

    def setup(self, it, ctx):
        c, h = self.circuit(it, ctx)
        S0 = h.S
        self.S0, self.h = S0, h
        self.val = Valuation('val')
        self.started = False
        # representation facts linking count and positional views (lean/Background.lean: count_pos_witness, two_positions_count)
        l = z3.Const('l!rp', LabelSort)
        i, j = z3.Ints('i!rp j!rp')
        w = z3.Function('inwit', LabelSort, I)
        ctx.assume(z3.ForAll([l], z3.Implies(S0.in_cnt(l) > 0, z3.And(w(l) >= 0, w(l) < S0.in_n, S0.in_elem(w(l)) == l))))
        ctx.assume(z3.ForAll([i, j], z3.Implies(z3.And(i >= 0, i < j, j < S0.in_n, S0.in_elem(i) == S0.in_elem(j)), S0.in_cnt(S0.in_elem(i)) >= 2)))
        it.loop_specs[(TS + '::tseytin_transformation', 1)] = InputsLoop(self)
        self.loop2 = OutputsLoop(self)
        it.loop_specs[(TS + '::tseytin_transformation', 2)] = self.loop2
        it.contracts[PG] = self.handler
        self.it = it
        it.symbolic_range_lists = True
        args = [c]
        if self.given:
            n = z3.Int('n_sel')
            idx = z3.Function('sel', I, I)
            k = z3.Int('k!sel')
            ctx.assume(n >= 0)
            ctx.assume(z3.ForAll([k], z3.Implies(z3.And(k >= 0, k < n), z3.And(idx(k) >= 0, idx(k) < S0.out_n))))      # precondition: valid output indices
            args.append(SymSeq([], n, lambda q: Sym(idx(q)), 'list'))
        return args, {}, {'h': h, 'S0': S0, 'val': self.val, 'loop2': self.loop2}          # per-path objects for post()

    # ---- process_gate: contract use / body verification -------------------------------------------------------
    def handler(self, it, fv, args, kwargs):
        label = args[0] if args else kwargs['label']
        env = fv.env
        if self.mode != 'loops' and not self.started:
            self.started = True
            self.verify_body(it, fv, env)
            raise PathEnd()
        return self.use_contract(it, env, label)

    def use_contract(self, it, env, label):
        ctx, S0, val = it.ctx, self.S0, self.val
        lt = it.label_term(label)
        old = view(it, env, val)
        ctx.check('process_gate/pre/label-is-a-gate', S0.dom(lt))
        check_inv(ctx, S0, old[0], old[1], old[2], 'process_gate/pre/')
        new = fresh_state(ctx)
        l, l2 = z3.Consts('l!pg l2!pg', LabelSort)
        i = z3.Int('i!pg')
        cl, _ = rel_clauses(S0, val, old, new, lt, l, l2, i)
        for nm, f in cl:
            ctx.assume(z3.ForAll([l, l2, i], f))
        ctx.assume(r5c(S0, val, old, new))
        install(it, env, val, *new)
        return Sym(new[1](lt))

    def verify_body(self, it, fv, env):
        ctx, S0, val = it.ctx, self.S0, self.val
        L = z3.Const('L!pg', LabelSort)
        old = fresh_state(ctx)
        assume_inv(ctx, S0, old[0], old[1], old[2])
        ctx.assume(S0.dom(L))
        if self.mode == 'saved':
            ctx.assume(old[0](L))
        else:
            t, a = self.mode
            ctx.assume(z3.And(z3.Not(old[0](L)), S0.typ(L) == GT[t], S0.nops(L) == a))
        # frame condition (R6): everything else the procedure could carry from call to call - another enclosing variable
        # that it re-binds, a list / dict / set of the enclosing scope that it mutates - is outside the contract
        from ..pyvc.models import CutFrame
        from ..pyvc.interp import stored_names
        cut = CutFrame(it, env, stored_names([fv.node]) - {fv.node.name}, 'the body of process_gate (rule R6)')
        install(it, env, val, *old)
        barrier = cut.after()
        it.barriers.append(barrier)
        try:
            r = it.call_function(fv, [Sym(L)], {}, force_inline=True)
        finally:
            it.barriers.remove(barrier)
        new = view(it, env, val)
        l, l2 = ctx.fresh(LabelSort, 'lv'), ctx.fresh(LabelSort, 'l2v')
        i = ctx.fresh(I, 'iv')
        cl, _ = rel_clauses(S0, val, old, new, L, l, l2, i)
        for nm, f in cl:
            ctx.check('process_gate/post/' + nm, f)
        ctx.check('process_gate/post/R5c/old-sat-and-new-equations-imply-sat', r5c(S0, val, old, new))
        ctx.check('process_gate/post/returns-the-literal-of-label', it.int_term(r) == new[1](L))
        ctx.check('process_gate/post/circuit-untouched', z3.BoolVal(not [e for e in self.h.events if e[0] in ('gate-write', 'gate-del', 'users-alias', 'users-del')]))

    # ---- whole function ---------------------------------------------------------------------------------------
    def post(self, it, ctx, result, st):
        if self.mode != 'loops':
            return          # the loop-exit path of a body-verification run carries no obligation (mode 'loops' owns it)
        S0, val, loop2 = st['S0'], st['val'], st['loop2']
        cnf = it.call(it.getattr(result, 'get_raw'), [], {})
        if not isinstance(cnf, CnfView):
            yield ('returns-the-built-cnf', z3.BoolVal(False))
            return
        env = loop2.env
        sd, sv, N, _ = view(it, env, val)
        sat = cnf.sat
        m = loop2.seq.n
        l, x = ctx.fresh(LabelSort, 'lf'), z3.Const('x!f', LabelSort)
        i, j, y = ctx.fresh(I, 'if'), ctx.fresh(I, 'jf'), z3.Int('y!f')
        sel = lambda q: loop2.sel(it, q)
        yield ('final/input-i-is-variable-i+1', z3.Implies(z3.And(i >= 0, i < S0.in_n), z3.And(sd(S0.in_elem(i)), sv(S0.in_elem(i)) == i + 1)))
        yield ('final/selected-outputs-encoded', z3.Implies(z3.And(j >= 0, j < m), sd(sel(j))))
        yield ('final/literals-injective-and-positive', z3.Implies(sd(l), z3.And(sv(l) >= 1, S0.dom(l))))
        yield ('final/encoded-gates-closed-under-operands', z3.Implies(z3.And(sd(l), nonin(S0, l), i >= 0, i < S0.nops(l)), sd(S0.op(l, i))))
        yield ('final/sat-implies-every-encoded-gate-obeys-its-equation', z3.Implies(z3.And(sat, sd(l), nonin(S0, l)), G(S0, val, sv, l)))
        yield ('final/sat-implies-selected-outputs-true', z3.Implies(z3.And(sat, j >= 0, j < m), val.f(sv(sel(j)))))
        yield ('final/equations-and-true-outputs-imply-sat',
               z3.Implies(z3.And(z3.ForAll([x], z3.Implies(z3.And(sd(x), nonin(S0, x)), G(S0, val, sv, x))),
                                 z3.ForAll([y], z3.Implies(z3.And(y >= 0, y < m), val.f(sv(sel(y)))))), sat))
        yield ('final/circuit-untouched', z3.BoolVal(not [e for e in st['h'].events if e[0] in ('gate-write', 'gate-del', 'users-alias', 'users-del')]))

    def on_raise(self, it, ctx, exc, st):
        yield ('no-raise', z3.BoolVal(False), {'raised': self.exc_name(exc), 'witness': 'raises-' + self.exc_name(exc)})

"""C10  Circuit.connect_circuit in LEFT mode without a block name (`right_connect=False`, `name=''`) on two ARBITRARY
well-formed circuits, k <= 2 connector pairs; precondition: the attached circuit has no blocks.

The gates of `other` are copied into `self` under their own labels (no prefix), except its connector inputs, which are
identified with the chosen gates of `self`:
   gates'   = gates(self) + (gates(other) - connectors), definitions of self unchanged, a copied gate keeps type and arity,
              operand j is operand j of the original with every connector c_i replaced by t_i
   outputs' = outputs(self) not among the this-connectors, then outputs(other) not among the other-connectors   (count view)
   inputs'  = inputs(self) in their order, then the unconnected inputs of other                                  (self part positional)
   WF kept; `other` is not modified.
Raises only CircuitValidationError (block named '' exists, a connector is missing, a copied label already exists in self)
or CreateBlockError (repeated other-connector, other-connector that is not an input).
(Definitions + rule R2 give the composed function: every copied gate computes its function of `other` with the
connector inputs fed by the chosen gates of `self`.)

Loop 4 (`for _gate in other.top_sort(inverse=True)`): top_sort through its contract (C20); old_to_new_names as a NameMap
(connector pairs + identity keys); invariant: the keys are the connectors and the gates yielded so far; self holds its
own gates unchanged plus the yielded non-connector gates with mapped operands; WF with rank' = rank_self on old gates and
R + rank_other on copied ones (R above all ranks of self). The two output / input comprehensions are filter / mapped /
concatenated list views; set_inputs and set_outputs are inlined with their loop specs."""
import z3

from ..pyvc.values import Sym, LabelSort, GT, Obj, Unsupported, VList, VDict, Native
from ..pyvc.interp import Model
from ..pyvc import circuit_model as CM
from .C02 import CircuitContract, state_eq, AllGatesLoop, CIRC, ALL
from .c02_order import PrefixCopyLoop

I = z3.IntSort()
B = z3.BoolSort()
KEY = CIRC + '::Circuit.connect_circuit'
_K = [0]


class AnySet(Model):
    """gates_for_block: only used when a block name is given (not in this contract); add() is ignored"""

    def m_getattr(self, it, name):
        if name == 'add':
            return Native('set.add', lambda x: None)
        raise Unsupported('gates_for_block.' + name)


class YieldSeq:
    prefix = []

    def __init__(self, it, h, y, n):
        self.it, self.h, self.y, self.n = it, h, y, n

    def elem(self, i):
        return CM.make_gate_obj(self.it, self.h.S, self.y(i))

    def concrete_len(self, it=None):
        return None


class InputsListed(AllGatesLoop):
    """set_inputs loop 1 with the list taken from the call (parameter `inputs`)"""

    def __init__(self, h, contract=None):
        AllGatesLoop.__init__(self, h, None, listed=None)
        self.contract = contract

    def inv(self, it, env, k):
        lst = env['inputs']
        self.listed = lambda q: lst.count(q) > 0
        if not getattr(self, 'lemma_done', False):
            # ghost lemma (proved once for an arbitrary gate, then available for the enumerated ones): every INPUT gate of the
            # current circuit is in the requested list
            self.lemma_done = True
            S = self.h.S
            g = z3.Const('g!il', LabelSort)
            goal = z3.Implies(z3.And(S.dom(g), S.typ(g) == GT['INPUT']), lst.count(g) > 0)
            # instantiation hints: the loop-4 exit facts and W4 of both circuits at an arbitrary label (instances of assumed universals)
            ctx, c = it.ctx, self.contract
            loop = c.loop
            def hints(lbl):
                x0, i0 = ctx.fresh(LabelSort, 'xh'), ctx.fresh(I, 'ih')
                for nm_, f in loop._f(it, loop.env, c.S2.size, lbl, x0, i0):
                    if nm_.split('/')[0] in ('M1', 'G0', 'G1', 'G2', 'G3'):      # gate components are untouched since the loop exit (G4 — outputs — is not: set_outputs ran)
                        ctx.assume(f)
                for Sx in (c.S1, c.S2):
                    ctx.assume(CM.wf_clauses(Sx, lbl, x0, i0)['W4'])
            self.hints = hints
            sk2 = ctx.fresh(LabelSort, 'glem')
            hints(sk2)
            ctx.check('lemma/set_inputs/every-input-gate-is-listed', z3.substitute(goal, (g, sk2)))
            ctx.assume(z3.ForAll([g], goal))
            # two more ghost lemmas for loop 2 of set_inputs (each proved once, with instances of the loop facts as hints):
            # every listed position holds an INPUT gate of the current circuit; no label is listed twice
            q = z3.Int('q!il')
            qs = ctx.fresh(I, 'qlem')
            hints(lst.elem(qs))
            goal2 = z3.Implies(z3.And(q >= 0, q < lst.n), z3.And(S.dom(lst.elem(q)), S.typ(lst.elem(q)) == GT['INPUT']))
            ctx.check('lemma/set_inputs/listed-positions-hold-input-gates', z3.substitute(goal2, (q, qs)))
            ctx.assume(z3.ForAll([q], goal2))
            sk3 = ctx.fresh(LabelSort, 'glem')
            hints(sk3)
            goal3 = lst.count(g) <= 1
            ctx.check('lemma/set_inputs/no-label-listed-twice', z3.substitute(goal3, (g, sk3)))
            ctx.assume(z3.ForAll([g], goal3))
        return AllGatesLoop.inv(self, it, env, k)


class ConnectLoop:
    def __init__(self, c):
        self.c = c
        self.ready = False

    def applies(self, it, env, iterable):
        return isinstance(iterable, YieldSeq)

    def _setup(self, it, env):
        if self.ready:
            return
        self.ready = True
        c = self.c
        m = env['old_to_new_names']
        if not isinstance(m, VDict):
            raise Unsupported('old_to_new_names is not the copied connector mapping')
        pairs = [(it.label_term(k), it.label_term(v)) for k, v in m.d.items()]
        ok = len(pairs) == len(c.ocs) and all(any(p[0].eq(o) and p[1].eq(t) for p in pairs) for o, t in zip(c.ocs, c.tcs))
        it.ctx.check('mapping-is-the-connector-pairs', z3.BoolVal(ok))
        env['old_to_new_names'] = CM.NameMap(pairs, lambda l: z3.BoolVal(False))
        env['gates_for_block'] = AnySet()

    def havoc(self, it, env):
        self._setup(it, env)
        ctx = it.ctx
        _K[0] += 1
        Sk = CM.fresh_state(f'conn{_K[0]}')
        CM.assume_state(ctx, Sk, wf=True, tag=f'conn{_K[0]}')
        self.c.h1.S = Sk
        idk = z3.Function(f'idkeys!{_K[0]}', LabelSort, B)
        nm = env['old_to_new_names']
        env['old_to_new_names'] = CM.NameMap(nm.pairs, lambda l: idk(l))

    def _f(self, it, env, k, l, x, i):
        self._setup(it, env)
        self.env = env
        c = self.c
        S1, S2, Sk, pos = c.S1, c.S2, c.h1.S, c.pos
        nm = env['old_to_new_names']
        added = lambda q: z3.And(S2.dom(q), z3.Not(nm.isconn(q)), pos(q) < k)
        mc = nm.mapped_count(lambda g: S2.opc(l, g))
        return [('M1/identity-keys-are-the-copied-gates', nm.idkeys(l) == added(l)),
                ('G0/copied-labels-were-free', z3.Implies(added(l), z3.Not(S1.dom(l)))),
                ('G1/gates-are-own-plus-copied', Sk.dom(l) == z3.Or(S1.dom(l), added(l))),
                ('G2/own-gates-unchanged', z3.Implies(S1.dom(l), z3.And(Sk.typ(l) == S1.typ(l), Sk.nops(l) == S1.nops(l), Sk.op(l, i) == S1.op(l, i), Sk.opc(l, x) == S1.opc(l, x)))),
                ('G3/copied-gates-have-mapped-operands', z3.Implies(added(l), z3.And(Sk.typ(l) == S2.typ(l), Sk.nops(l) == S2.nops(l),
                                                                                  z3.Implies(z3.And(i >= 0, i < S2.nops(l)), Sk.op(l, i) == nm.val(S2.op(l, i))), Sk.opc(l, x) == mc(x)))),
                ('G4/outputs-and-blocks-unchanged', z3.And(Sk.out_n == S1.out_n, Sk.out_elem(i) == S1.out_elem(i), Sk.out_cnt(l) == S1.out_cnt(l), Sk.b_member == S1.b_member, Sk.b_name == S1.b_name,
                                                           Sk.bg(l) == S1.bg(l), Sk.bi(l) == S1.bi(l), Sk.bo(l) == S1.bo(l)))]

    def rank(self):
        c = self.c
        return lambda q: z3.If(c.S1.dom(q), c.S1.rank(q), c.R + c.S2.rank(q))

    def inv(self, it, env, k):
        ctx = it.ctx
        out = self._f(it, env, k, ctx.fresh(LabelSort, 'lc'), ctx.fresh(LabelSort, 'xc'), ctx.fresh(I, 'ic'))
        Sk = self.c.h1.S.copy()
        Sk.rank = self.rank()
        return out + [('WF/' + nm_, f) for nm_, f in CM.wf_goals(ctx, Sk)]

    def inv_assume(self, it, env, k):
        l, x = z3.Consts('l!cn x!cn', LabelSort)
        i = z3.Int('i!cn')
        out = []
        for nm_, f in self._f(it, env, k, l, x, i):
            for part in (list(f.children()) if z3.is_and(f) else [f]):
                used = [v for v in (l, x, i) if any(v.eq(w) for w in z3.z3util.get_vars(part))]
                out.append((nm_, z3.ForAll(used, part) if used else part))
        return out


class ConnectLeft(CircuitContract):
    qualname = 'Circuit.connect_circuit'

    def __init__(self, k):
        self.k = k
        self.name = f'connect_circuit/left/no-name/{k}connectors'

    def setup(self, it, ctx):
        c1, h1 = self.circuit(it, ctx)
        c2, h2 = CM.make_circuit(it, ctx, tag='o')
        S1, S2 = h1.S, h2.S
        self.h1, self.h2, self.S1, self.S2 = h1, h2, S1, S2
        it.filter_views = True
        it.concat_label_lists = CM.concat_label_lists
        l, u = z3.Consts('l!cc u!cc', LabelSort)
        i = z3.Int('i!cc')
        ctx.assume(z3.ForAll([l], S2.rank(l) >= 0))
        # precondition: the attached circuit has no blocks
        ctx.assume(z3.Not(S2.b_member))
        ctx.assume(z3.ForAll([l], z3.Not(h2.other_block(l))))
        _K[0] += 1
        k = _K[0]
        # finite circuits: some R lies above every rank of self (ghost)
        R = z3.Int(f'rankbound!{k}')
        self.R = R
        ctx.assume(z3.ForAll([l], z3.And(S1.rank(l) >= 0, S1.rank(l) < R)))
        # contract of other.top_sort(inverse=True) (C20)
        pos = z3.Function(f'pos!{k}', LabelSort, I)
        y = z3.Function(f'yield!{k}', I, LabelSort)
        self.pos = lambda q: pos(q)
        n = S2.size
        ctx.assume(z3.ForAll([i], z3.Implies(z3.And(i >= 0, i < n), z3.And(S2.dom(y(i)), pos(y(i)) == i))))
        ctx.assume(z3.ForAll([l], z3.Implies(S2.dom(l), z3.And(pos(l) >= 0, pos(l) < n, y(pos(l)) == l))))
        ctx.assume(z3.ForAll([l, i], z3.Implies(z3.And(S2.dom(l), i >= 0, i < S2.nops(l)), pos(S2.op(l, i)) < pos(l))))
        # representation fact: a counted operand occurs at some position (lean: count_pos_witness)
        w = z3.Function(f'opwit!{k}', LabelSort, LabelSort, I)
        ctx.assume(z3.ForAll([u, l], z3.Implies(S2.opc(u, l) > 0, z3.And(w(u, l) >= 0, w(u, l) < S2.nops(u), S2.op(u, w(u, l)) == l)), patterns=[S2.opc(u, l)]))

        def top_sort(it_, fv, args, kwargs):
            if not kwargs.get('inverse') or getattr(args[0], 'holder', None) is not h2:
                raise Unsupported('top_sort call without contract')
            return YieldSeq(it_, h2, lambda j: y(j), n)
        it.contracts[CIRC + '::Circuit.top_sort'] = top_sort

        def remember_label(it_, fv, args, kwargs):
            # ghost: the label handed to check_label_doesnt_exist (witness of a label clash); the real body is inlined
            it_.ctx.last_checked_label = it_.label_term(args[0] if args else kwargs['gate_label'])
            return it_.call_function(fv, args, kwargs, force_inline=True)
        it.contracts['cirbo/core/circuit/validation.py::check_label_doesnt_exist'] = remember_label
        self.tcs = [z3.Const(f't{j}', LabelSort) for j in range(self.k)]
        self.ocs = [z3.Const(f'o{j}', LabelSort) for j in range(self.k)]
        self.loop = ConnectLoop(self)
        it.loop_specs[(KEY, 4)] = self.loop
        it.loop_specs[(CIRC + '::Circuit._emplace_gate', 1)] = CM.UsersLoop(h1, lambda it_, e: (e['operands'], it_.label_term(e['label'])), +1)
        it.loop_specs[(CIRC + '::Circuit.set_inputs', 1)] = InputsListed(h1, self)
        it.loop_specs[(CIRC + '::Circuit.set_inputs', 2)] = PrefixCopyLoop(h1)
        st = {'h1': h1, 'h2': h2, 'S1': S1, 'S2': S2, 'c1': c1, 'tcs': self.tcs, 'ocs': self.ocs, 'pos': self.pos, 'R': R}
        return [c1, c2, VList([Sym(t) for t in self.tcs]), VList([Sym(o) for o in self.ocs])], {}, st

    def post(self, it, ctx, result, st):
        h1, h2, S1, S2, tcs, ocs = st['h1'], st['h2'], st['S1'], st['S2'], st['tcs'], st['ocs']
        yield ('returns-self', z3.BoolVal(result is st['c1']))
        CM.sync_fields(it, h1)
        Sp = h1.S.copy()
        isconn = lambda q: z3.Or([q == o for o in ocs]) if ocs else z3.BoolVal(False)
        isthis = lambda q: z3.Or([q == t for t in tcs]) if tcs else z3.BoolVal(False)
        val = lambda q: q
        for o, t in reversed(list(zip(ocs, tcs))):
            val = (lambda q, o=o, t=t, nxt=val: z3.If(q == o, t, nxt(q)))
        copied = lambda q: z3.And(S2.dom(q), z3.Not(isconn(q)))
        Sp.rank = lambda q: z3.If(S1.dom(q), S1.rank(q), st['R'] + S2.rank(q))
        for nm_, f in CM.wf_goals(ctx, Sp):
            yield ('WF/' + nm_, f)
        l, x = ctx.fresh(LabelSort, 'lq'), ctx.fresh(LabelSort, 'xq')
        i = ctx.fresh(I, 'iq')
        yield ('accepted-only-valid-connectors', z3.And([z3.And(S1.dom(t), S2.dom(o), S2.typ(o) == GT['INPUT']) for o, t in zip(ocs, tcs)] + ([z3.Distinct(*ocs)] if len(ocs) > 1 else [])))
        yield ('gates/own-plus-copied', z3.And(Sp.dom(l) == z3.Or(S1.dom(l), copied(l)), z3.Implies(copied(l), z3.Not(S1.dom(l)))), {'witness': 'gate-set'})
        yield ('gates/own-definitions-unchanged', z3.Implies(S1.dom(l), z3.And(Sp.typ(l) == S1.typ(l), Sp.nops(l) == S1.nops(l), Sp.op(l, i) == S1.op(l, i), Sp.opc(l, x) == S1.opc(l, x))))
        yield ('gates/copied-definitions-with-connectors-identified', z3.Implies(copied(l), z3.And(Sp.typ(l) == S2.typ(l), Sp.nops(l) == S2.nops(l),
                                                                                                    z3.Implies(z3.And(i >= 0, i < S2.nops(l)), Sp.op(l, i) == val(S2.op(l, i))))), {'witness': 'composition'})
        yield ('outputs/own-unconnected-then-unconnected-of-other', Sp.out_cnt(l) == z3.If(isthis(l), 0, S1.out_cnt(l)) + z3.If(isconn(l), 0, S2.out_cnt(l)), {'witness': 'outputs'})
        yield ('inputs/own-inputs-first-in-order', z3.Implies(z3.And(i >= 0, i < S1.in_n), Sp.in_elem(i) == S1.in_elem(i)), {'witness': 'inputs'})
        yield ('inputs/own-then-unconnected-of-other', Sp.in_cnt(l) == S1.in_cnt(l) + z3.If(isconn(l), 0, S2.in_cnt(l)), {'witness': 'inputs'})
        yield ('blocks-unchanged', z3.And(Sp.b_member == S1.b_member, Sp.bg(l) == S1.bg(l), Sp.bi(l) == S1.bi(l), Sp.bo(l) == S1.bo(l)))
        yield ('other-untouched', z3.And(z3.BoolVal(not [e for e in h2.events if e[0] in ('gate-write', 'gate-del', 'users-alias', 'users-del')]), state_eq(ctx, h2.S, S2, ALL)))

    def on_raise(self, it, ctx, exc, st):
        n = self.exc_name(exc)
        S1, S2, tcs, ocs, h1 = st['S1'], st['S2'], st['tcs'], st['ocs'], st['h1']
        l = z3.Const('l!cr', LabelSort)
        isconn = lambda q: z3.Or([q == o for o in ocs]) if ocs else z3.BoolVal(False)
        if n == 'CircuitValidationError':
            empty = it.label_of_str('')
            block_named_empty = z3.Or(z3.And(S1.b_member, S1.b_name == empty), h1.other_block(empty))
            missing = z3.Or([z3.Not(S1.dom(t)) for t in tcs] + [z3.Not(S2.dom(o)) for o in ocs]) if tcs else z3.BoolVal(False)
            w = getattr(ctx, 'last_checked_label', None)          # the label whose existence check raised (if any)
            clash = z3.And(S2.dom(w), z3.Not(isconn(w)), S1.dom(w)) if w is not None else z3.BoolVal(False)
            yield ('raise/block-exists-or-connector-missing-or-label-clash', z3.Or(block_named_empty, missing, clash), {'raised': n})
        elif n == 'CreateBlockError':
            dup = z3.Or([ocs[a] == ocs[b] for a in range(len(ocs)) for b in range(a + 1, len(ocs))]) if len(ocs) > 1 else z3.BoolVal(False)
            notin = z3.Or([z3.And(S2.dom(o), S2.typ(o) != GT['INPUT']) for o in ocs]) if ocs else z3.BoolVal(False)
            yield ('raise/repeated-or-non-input-other-connector', z3.Or(dup, notin), {'raised': n})
        else:
            yield ('no-other-raise', z3.BoolVal(False), {'raised': n, 'witness': 'raises-' + n})

"""C03  Simplification passes preserve the function, the interface and their argument.

P: MergeDuplicateGates._build_signature (the nested function, extracted mechanically from the AST): equal
   signatures imply equal gate type and an operand list on which OP(type) takes the same value — for every
   gate type, arities <= 3 and every aliasing of operand labels (this is what makes merging two gates sound);
   MergeUnaryOperators' operand getter reads exactly the operand OP depends on.
B: all passes, pipelines and cleanup on enumerated / random circuits (vlib/bounded/C03.py)."""
import itertools
import z3

from .. import env
from ..pyvc.values import Sym, LabelSort, Obj, VList, Unsupported
from ..pyvc.prove import Prover, Contract
from ..pyvc import theory
from ..spec import ops as S
from .common import new_interp, finish_refuted, canary, STD_TRUSTED, STD_ASSUME, run_bounded

LEVEL = 'other'
MDG = 'cirbo/minimization/simplification/merge_duplicate_gates.py'
MUO = 'cirbo/minimization/simplification/merge_unary_operators.py'


def arities(t):
    if t in S.NARY:
        return [2, 3]
    if t in S.BINARY:
        return [2]
    if t in S.UNARY:
        return [1]
    return [0, 2]


class Signature(Contract):
    """sig(t, a) == sig(t2, b)  ==>  t == t2 and OP(t)(V a) == OP(t)(V b);   and the converse normal-form direction:
    same type and same operands (up to order for symmetric types) ==> equal signatures."""
    relpath, qualname = MDG, 'MergeDuplicateGates._transform'

    mode = 'sound'          # 'sound' (C03: merging is function preserving) | 'normal-form' (C18: duplicates get equal signatures)

    def __init__(self, t, k1, k2, t2=None):
        self.t, self.k1, self.k2, self.t2 = t, k1, k2, t2 or t
        self.name = f'_build_signature/{t}{k1}-vs-{self.t2}{k2}'

    def setup(self, it, ctx):
        a = [z3.Const(f'a{i}', LabelSort) for i in range(self.k1)]
        b = [z3.Const(f'b{i}', LabelSort) for i in range(self.k2)]
        gm = it.load_module('cirbo.core.circuit.gate')
        return [], {}, {'a': a, 'b': b, 'T1': gm.env[self.t], 'T2': gm.env[self.t2]}

    def execute(self, it, fv, args, kwargs):
        st = self._st
        f = it.get_nested_function(MDG, 'MergeDuplicateGates._transform', '_build_signature')
        s1 = it.call_function(f, [st['T1'], tuple(Sym(x) for x in st['a'])], {}, force_inline=True)
        s2 = it.call_function(f, [st['T2'], tuple(Sym(x) for x in st['b'])], {}, force_inline=True)
        return (s1, s2)

    def post(self, it, ctx, result, st):
        s1, s2 = result
        e = it.eq(s1, s2)
        e = z3.BoolVal(e) if isinstance(e, bool) else e
        V = z3.Function('V', LabelSort, z3.BoolSort())
        a, b = st['a'], st['b']
        if self.t != self.t2:
            if self.mode == 'sound':
                yield ('different-types-differ', z3.Not(e))
            return
        va = theory.OPz(self.t, [V(x) for x in a]) if S.arity_ok(self.t, len(a)) and (len(a) or self.t in S.CONST) else None
        vb = theory.OPz(self.t, [V(x) for x in b]) if S.arity_ok(self.t, len(b)) and (len(b) or self.t in S.CONST) else None
        if va is not None and vb is not None and self.mode == 'sound':
            yield ('equal-signature-implies-equal-value', z3.Implies(e, va == vb), {'witness': 'repeated-operands' if self.t in S.NARY else 'signature'})
        if len(a) == len(b) and self.mode == 'normal-form':
            same = z3.And([x == y for x, y in zip(a, b)]) if a else z3.BoolVal(True)
            yield ('same-operands-imply-equal-signature', z3.Implies(same, e))
            if S.SYMMETRIC[self.t] and len(a) >= 2:
                perms = [z3.And([a[i] == b[p[i]] for i in range(len(a))]) for p in itertools.permutations(range(len(a)))]
                yield ('permuted-operands-imply-equal-signature', z3.Implies(z3.Or(perms), e), {'witness': 'operand-order'})


class _SigRunner(Signature):
    def setup(self, it, ctx):
        args, kw, st = Signature.setup(self, it, ctx)
        self._st = st
        return args, kw, st


def getter_obligations(rep, pv, it):
    m = it.load_module('cirbo.minimization.simplification.merge_unary_operators')
    tbl = m.env['_unary_to_operand_getter']
    p, q = z3.Bools('p q')
    names = []
    for k, getter in tbl.d.items():
        t = k.fields['_name']
        names.append(t)
        ops = (Sym(p),) if t in S.UNARY else (Sym(p), Sym(q))
        from ..pyvc.interp import Ctx
        it.ctx = Ctx([])
        picked = it.call(getter, [ops], {})
        neg = t in ('NOT', 'LNOT', 'RNOT')
        want = theory.OPz(t, [p] if t in S.UNARY else [p, q])
        pv.add_raw(f'C03/_unary_to_operand_getter/{t}/reads-the-operand-OP-depends-on', '_unary_to_operand_getter', [],
                   want == (z3.Not(picked.t) if neg else picked.t), meta={'witness': 'getter'})
    pv.add_raw('C03/_unary_to_operand_getter/keys-are-the-unary-like-types', '_unary_to_operand_getter', [],
               z3.BoolVal(sorted(names) == sorted(['NOT', 'LNOT', 'RNOT', 'IFF', 'LIFF', 'RIFF'])))


def signature_contracts(mode='sound'):
    cs = []
    for t in S.GATE_TYPES:
        if t == 'INPUT':
            continue
        ar = arities(t)
        for k1 in ar:
            for k2 in ar:
                if k1 <= k2 and (mode == 'sound' or k1 == k2):
                    cs.append(_SigRunner(t, k1, k2))
    for t, t2 in (('AND', 'OR'), ('XOR', 'NXOR'), ('GT', 'LT'), ('NOT', 'IFF'), ('LIFF', 'RIFF')):
        k = arities(t)[0]
        if mode == 'sound':
            cs.append(_SigRunner(t, k, k, t2))
    for c in cs:
        c.mode = mode
    return cs


def run(rep):
    quick = env.TIER != 'thorough'
    rep.trusted_base = list(STD_TRUSTED) + ['axiom of sorted(): ascending permutation w.r.t. a total order on labels (differentially tested)']
    for a in STD_ASSUME:
        rep.assume(a)
    rep.assume('RemoveRedundantGates._transform is proved on an arbitrary circuit (both settings of allow_inputs_removal) with Circuit.dfs used through its contract — the exit-hook calls are exactly the gates reachable '
               'from the outputs, each once, operands first (C20: c20_trav Traverse + DfsOrder) — and the two input comprehensions as order-preserving filter views; precondition: INPUT gates carry no operands; '
               'unchanged definitions on a reachable-closed gate set give an identical truth table by rule R2; "never more gates" and the public transform() wrapper (pre/post transformers) are bounded-only')
    rep.assume('the rebuilds of the other four passes (MergeUnaryOperators, MergeDuplicateGates, MergeEquivalentGates, cleanup), pipelines and compositions are covered by the bounded stand-in only')
    it = new_interp()
    pv = Prover(rep, it, 'C03')
    for c in signature_contracts():
        pv.run_contract(c)
    getter_obligations(rep, pv, it)
    # RemoveRedundantGates._transform on an arbitrary circuit (c03_rrg.py; dfs through its contract proved under C20)
    from .c03_rrg import Rrg
    for allow in (False, True):
        it.loop_specs.clear()
        it.contracts.clear()
        pv.run_contract(Rrg(allow))
    it.loop_specs.clear()
    it.contracts.clear()
    it.filter_views = False
    a, b = z3.Bools('a b')
    canary(rep, pv, 'C03/canary/xor-ignores-multiplicity', [], z3.Xor(z3.Xor(a, a), b) == z3.Xor(a, b))
    refuted = pv.discharge(env.NPROC)
    finish_refuted(rep, pv, refuted)
    run_bounded(rep, 'C03', quick)
    rep.extra['explanation'] = 'RemoveRedundantGates proved on an arbitrary circuit; signature soundness of MergeDuplicateGates and the operand getter of MergeUnaryOperators proved from the real source; the other passes as a whole: bounded stand-in.'

"""Further gate-interpreting modules checked under C01: bench conversion (shared with C14) and the pattern
simulation of subcircuit minimisation."""
import z3

from ..pyvc.values import Sym, VList, Obj
from ..pyvc.prove import Contract
from ..pyvc import theory
from ..spec import ops as S

SUB = 'cirbo/minimization/subcircuit.py'
PATTERN_TYPES = ('NOT', 'AND', 'NAND', 'OR', 'NOR', 'XOR', 'NXOR', 'GEQ', 'LT', 'LEQ', 'GT')


class EvalPattern(Contract):
    """_PatternOperations(3).eval_pattern: bit k of the result is OP(name) of bit k of ALL operands (4-bit patterns)"""
    relpath, qualname = SUB, '_PatternOperations.eval_pattern'
    W = 4          # _PatternOperations(2): 4-bit patterns (the per-bit claim is the same at every width; small width keeps the BV queries fast under load)

    def __init__(self, t, arity):
        self.t, self.arity = t, arity
        self.name = f'_PatternOperations.eval_pattern/{t}/arity{arity}'

    def setup(self, it, ctx):
        it.bv_width = self.W
        m = it.load_module('cirbo.minimization.subcircuit')
        o = it.call(m.env['_PatternOperations'], [2], {})
        ps = [z3.Int(f'p{i}') for i in range(self.arity)]
        for p in ps:
            ctx.assume(z3.And(p >= 0, p < 2 ** self.W))
        return [o, VList([Sym(p) for p in ps]), self.t], {}, {'ps': ps, 'o': o}

    def post(self, it, ctx, result, st):
        it.bv_width = None
        r = it.int_term(result)
        yield ('max-pattern', z3.BoolVal(st['o'].fields['max_pattern'] == 2 ** self.W - 1))
        yield ('result-in-range', z3.And(r >= 0, r < 2 ** self.W))
        k = ctx.fresh(z3.IntSort(), 'k')
        bit = lambda x: z3.Extract(0, 0, z3.LShR(z3.Int2BV(x, self.W), z3.Int2BV(k, self.W))) == 1
        yield ('bitwise-OP-of-all-operands', z3.Implies(z3.And(k >= 0, k < self.W), bit(r) == theory.OPz(self.t, [bit(p) for p in st['ps']])),
               {'witness': 'nary>2' if self.arity > 2 else 'pattern'})

    def on_raise(self, it, ctx, exc, st):
        it.bv_width = None
        return Contract.on_raise(self, it, ctx, exc, st)

    def inputs(self, st):
        return {'patterns': st['ps']}

    def replay(self, values):
        import importlib
        sub = importlib.import_module('cirbo.minimization.subcircuit')
        po = sub._PatternOperations(3)   # native replay at 8 bits
        import itertools
        for ps in itertools.product((0b10101010, 0b11001100, 0b11110000, 0b00110101), repeat=self.arity):
            got = po.eval_pattern(list(ps), self.t)
            for k in range(8):
                want = S.OP(self.t, [bool((p >> k) & 1) for p in ps])
                if bool((got >> k) & 1) != bool(want):
                    return False, f'eval_pattern({list(ps)}, {self.t!r}) = {got}: bit {k} is not OP of the operand bits'
        return True, 'eval_pattern agrees with OP on the sampled patterns'


class EvalPatternUnsupported(Contract):
    relpath, qualname, name = SUB, '_PatternOperations.eval_pattern', '_PatternOperations.eval_pattern/unsupported-name-raises'

    def setup(self, it, ctx):
        m = it.load_module('cirbo.minimization.subcircuit')
        o = it.call(m.env['_PatternOperations'], [2], {})
        return [o, VList([1, 2]), 'LNOT'], {}, {}

    def post(self, it, ctx, result, st):
        yield ('must-raise', z3.BoolVal(False))

    def on_raise(self, it, ctx, exc, st):
        n = exc.cls.name if isinstance(exc, Obj) else repr(exc)
        yield ('raises-UnsupportedOperationError', z3.BoolVal(n == 'UnsupportedOperationError'))


def add(rep, pv, it):
    from .C14 import ConvertGate
    for t in S.GATE_TYPES:
        if t == 'INPUT':
            continue
        c = ConvertGate(t)
        c.name = 'bench-conversion/' + c.name
        it.loop_specs.clear()
        pv.run_contract(c)
    it.loop_specs.clear()
    for t in PATTERN_TYPES:
        ars = [1] if t == 'NOT' else ([2, 3] if t in S.NARY else [2])
        for a in ars:
            pv.run_contract(EvalPattern(t, a))
    pv.run_contract(EvalPatternUnsupported())

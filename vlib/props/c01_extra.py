def add(rep, pv, it):
    pass

"""C07  Summation generators compute exact sums within the promised basis and size.

P (all operand values, all host circuits, all operand aliasing):
   leaf gadgets add_sum2/3, add_sum2_aig/3_aig, add_stockmeyer_block, add_mdfa, add_simplified_mdfa;
   add_sum_n_bits for n <= NB in both bases and every basis spelling; add_sum_two_numbers and
   add_sum_two_numbers_with_shift for widths <= W (width-bounded: the ripple loops are unrolled, so each
   obligation is universal in values and hosts but not in the width); freshness frame, WF, AIG basis.
B: vlib/bounded/C07.py (weighted sums with SortedList work lists, pow2_m1, gate-count bounds, larger widths)."""
import z3

from .. import env
from ..pyvc.prove import Prover
from .arith_common import HostGadget, val_le, b2i
from .common import new_interp, finish_refuted, canary, STD_TRUSTED, STD_ASSUME, run_bounded

LEVEL = 'other'
SUM = 'cirbo/synthesis/generation/arithmetics/summation.py'


def spec_sum(levels=None):
    def f(xs, rs, st):
        yield ('sum-of-bits', val_le(rs) == z3.Sum([b2i(x) for x in xs]))
    return f


def spec_stockmeyer(xs, rs, st):
    x1, x2, x23 = xs
    x3 = z3.Xor(x2, x23)
    yield ('x1+x2+x3', val_le(rs) == b2i(x1) + b2i(x2) + b2i(x3))


def spec_mdfa(xs, rs, st):
    z, x1, xy1, x2, xy2 = xs
    y1, y2 = z3.Xor(x1, xy1), z3.Xor(x2, xy2)
    z_, x_, xy_ = rs
    y_ = z3.Xor(x_, xy_)
    yield ('z+x1+y1+x2+y2', b2i(z) + b2i(x1) + b2i(y1) + b2i(x2) + b2i(y2) == b2i(z_) + 2 * (b2i(x_) + b2i(y_)))


def spec_smdfa(xs, rs, st):
    x1, xy1, x2, xy2 = xs
    y1, y2 = z3.Xor(x1, xy1), z3.Xor(x2, xy2)
    z_, x_, xy_ = rs
    y_ = z3.Xor(x_, xy_)
    yield ('x1+y1+x2+y2', b2i(x1) + b2i(y1) + b2i(x2) + b2i(y2) == b2i(z_) + 2 * (b2i(x_) + b2i(y_)))


def spec_add(n, m, shift=0, big_endian=False):
    def f(xs, rs, st):
        a, b = xs[:n], xs[n:n + m]
        if big_endian:
            a, b, rs_ = a[::-1], b[::-1], rs[::-1]
        else:
            rs_ = rs
        yield ('a+b*2^shift', val_le(rs_) == val_le(a) + val_le(b) * (2 ** shift))
        if shift == 0:
            yield ('length', z3.BoolVal(len(rs) == max(n, m) + 1))
    return f


def contracts(quick):
    cs = []
    leaf = [('add_sum2', 2, spec_sum(), False, 2), ('add_sum3', 3, spec_sum(), False, 5),
            ('add_sum2_aig', 2, spec_sum(), True, 3), ('add_sum3_aig', 3, spec_sum(), True, 7),
            ('add_stockmeyer_block', 3, spec_stockmeyer, False, 4), ('add_mdfa', 5, spec_mdfa, False, 8),
            ('add_simplified_mdfa', 4, spec_smdfa, False, 6)]
    for fn, n, sp, aig, mx in leaf:
        cs.append(HostGadget(SUM, fn, n, sp, label=fn, basis_aig=aig, max_new=mx))
    NB = 5 if quick else 7
    for n in range(1, NB + 1):
        for basis, aig in (('XAIG', False), ('AIG', True), ('aig', True), ('Xaig', False)):
            if n > 3 and basis in ('aig', 'Xaig'):
                continue
            cs.append(HostGadget(SUM, 'add_sum_n_bits', n, spec_sum(), label=f'add_sum_n_bits/n{n}/{basis}', kwargs={'basis': basis}, basis_aig=aig))
        cs.append(HostGadget(SUM, 'add_sum_n_bits_easy', n, spec_sum(), label=f'add_sum_n_bits_easy/n{n}'))
    W = 3 if quick else 4
    for n in range(1, W + 1):
        for m in range(1, W + 1):
            for be in (False, True):
                if be and (n, m) not in ((2, 3), (3, 2), (2, 2)):
                    continue
                cs.append(HostGadget(SUM, 'add_sum_two_numbers', n + m, spec_add(n, m, 0, be), label=f'add_sum_two_numbers/{n}x{m}/{"be" if be else "le"}',
                                     shape=(n, m), kwargs={'big_endian': be}))
    for n, m, sh in [(1, 1, 0), (2, 2, 1), (2, 1, 2), (1, 2, 3), (3, 2, 1), (2, 3, 2), (1, 1, 2), (2, 2, 4)]:
        for be in (False, True):
            if be and (n, m, sh) not in ((2, 2, 1), (1, 2, 3)):
                continue
            def builder(sx, n=n, m=m, sh=sh):
                from ..pyvc.values import VList
                return [sh, VList(sx[:n]), VList(sx[n:n + m])]
            cs.append(HostGadget(SUM, 'add_sum_two_numbers_with_shift', n + m, spec_add(n, m, sh, be), label=f'add_sum_two_numbers_with_shift/{n}x{m}<<{sh}/{"be" if be else "le"}',
                                 arg_builder=builder, kwargs={'big_endian': be}))
    return cs


def run(rep):
    quick = env.TIER != 'thorough'
    rep.trusted_base = list(STD_TRUSTED) + ['abstract circuit model vlib/pyvc/circuit_model.py (python dict/list semantics of the five Circuit fields as count/positional views)']
    for a in STD_ASSUME:
        rep.assume(a)
    rep.assume('width-bounded P: adders and add_sum_n_bits are proved per width (loops unrolled) for all operand values and all hosts; larger widths and the weighted work-list generators are bounded-only')
    rep.assume('uuid4-based labels are arbitrary labels; the retry loops are cut with the trivial invariant (termination assumed)')
    it = new_interp()
    pv = Prover(rep, it, 'C07')
    for c in contracts(quick):
        pv.run_contract(c)
    a, b = z3.Bools('a b')
    canary(rep, pv, 'C07/canary/half-adder-carry-is-or', [], b2i(z3.Xor(a, b)) + 2 * b2i(z3.Or(a, b)) == b2i(a) + b2i(b))
    refuted = pv.discharge(env.NPROC)
    finish_refuted(rep, pv, refuted)
    run_bounded(rep, 'C07', quick)
    rep.extra['explanation'] = ('Leaf gadgets and width-bounded adders: value equations, freshness frame, WF and basis membership proved by symbolic execution of the '
                                'real generator + circuit code on an abstract host circuit; unbounded widths / weighted generators: bounded stand-in.')

"""C17  Shipped circuit databases are correct and lookups return the requested function.

P: NormalizationInfo is an inverse pair — for every truth table of the shapes below (all entry values), if a
   circuit's outputs compute the rows of the NORMALISED table, then after denormalize() its outputs compute the
   rows of the ORIGINAL table, in the original order (through output negation, sorting and de-duplication).
   The real normalisation / denormalisation code (incl. list.sort with a key, order_outputs, _negate_gate through
   emplace_gate) is symbolically executed on an interpreted Circuit; each comparison outcome is a path.
B: every entry of both shipped databases (thorough: all 699,448; quick: seeded sample) and lookups incl.
   don't-cares (vlib/bounded/C17.py)."""
import itertools
import z3

from .. import env
from ..pyvc.values import Sym, VList, Obj, Unsupported
from ..pyvc.prove import Prover, Contract
from .common import new_interp, finish_refuted, canary, STD_TRUSTED, STD_ASSUME, run_bounded

LEVEL = 'other'
NORM = 'cirbo/circuits_db/normalization.py'


class Inverse(Contract):
    relpath, qualname = NORM, 'NormalizationInfo.denormalize'

    def __init__(self, m, rowlen):
        self.m, self.rowlen = m, rowlen
        self.name = f'NormalizationInfo/normalize-denormalize/{m}x{rowlen}'

    def setup(self, it, ctx):
        rows = [[z3.Bool(f't{i}_{j}') for j in range(self.rowlen)] for i in range(self.m)]
        return [], {}, {'rows': rows}

    def execute(self, it, fv, args, kwargs):
        st = self._st
        nm = it.load_module('cirbo.circuits_db.normalization')
        cm = it.load_module('cirbo.core.circuit.circuit')
        gm = it.load_module('cirbo.core.circuit.gate')
        table = VList([VList([Sym(b) for b in r]) for r in st['rows']])
        info = it.call(nm.env['NormalizationInfo'], [table], {})
        norm = info.fields['truth_table']
        k = len(norm.items)
        c = it.call(cm.env['Circuit'], [], {})
        it.call(it.getattr(c, '_emplace_gate'), ['x', gm.env['INPUT']], {})
        for j in range(k):
            it.call(it.getattr(c, '_emplace_gate'), [f'r{j}', gm.env['IFF'], ('x',)], {})
        it.call(it.getattr(c, 'set_outputs'), [VList([f'r{j}' for j in range(k)])], {})
        st['norm'] = norm
        st['info'] = info
        it.call(it.getattr(info, 'denormalize'), [c], {})
        return c

    def post(self, it, ctx, result, st):
        norm = st['norm']
        outs = result.fields['_outputs']
        outs = outs.items if isinstance(outs, VList) else list(outs)
        yield ('number-of-outputs', z3.BoolVal(len(outs) == self.m))
        if len(outs) != self.m:
            return
        gates = result.fields['_gates'].d
        for i, o in enumerate(outs):
            # value of output o at table position x, given that r_j computes the j-th normalised row
            def value(lbl, x):
                g = gates[lbl]
                t = g.fields['_gate_type'].fields['_name']
                if lbl.startswith('r') and t == 'IFF':
                    return it.as_bool_term(it.truth(norm.items[int(lbl[1:])].items[x]))
                if t == 'NOT':
                    return z3.Not(value(g.fields['_operands'][0], x))
                raise Unsupported('unexpected gate ' + lbl)
            for x in range(self.rowlen):
                v = value(o, x)
                v = z3.BoolVal(v) if isinstance(v, bool) else v
                yield (f'output{i}-computes-original-row', v == st['rows'][i][x], {'witness': 'normalization-inverse'})
        # normal form facts used by the database key: first entries are 0, rows ascending and pairwise distinct
        for j, r in enumerate(norm.items):
            f0 = it.truth(r.items[0])
            yield (f'normalised-row{j}-starts-with-0', z3.Not(f0) if not isinstance(f0, bool) else z3.BoolVal(not f0))


class _Runner(Inverse):
    def setup(self, it, ctx):
        a, k, st = Inverse.setup(self, it, ctx)
        self._st = st
        return a, k, st


def run(rep):
    quick = env.TIER != 'thorough'
    rep.trusted_base = list(STD_TRUSTED) + ['model of list.sort(key=…) as a stable sort with every comparison outcome explored']
    for a in STD_ASSUME:
        rep.assume(a)
    rep.assume('the stored data (2 x 349,724 entries), the lookup functions of db.py and the don\'t-care search are covered by the bounded layer only (thorough: exhaustive over all entries)')
    it = new_interp()
    pv = Prover(rep, it, 'C17')
    shapes = [(1, 2), (1, 4), (2, 2), (2, 4), (3, 2)] + ([] if quick else [(3, 4)])
    for m, r in shapes:
        pv.run_contract(_Runner(m, r))
    a = z3.Bool('a')
    canary(rep, pv, 'C17/canary/negation-is-identity', [], z3.Not(a) == a)
    refuted = pv.discharge(env.NPROC)
    finish_refuted(rep, pv, refuted)
    run_bounded(rep, 'C17', quick)
    rep.extra['explanation'] = 'normalise/denormalise inverse proved from the real source for all tables of small shapes; database contents and lookups: bounded stand-in (exhaustive over all stored entries in the thorough tier).'

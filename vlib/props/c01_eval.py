"""Evaluation loops under contract (shared by C01 and C15).

evaluate_full_circuit(assignment) on an arbitrary well-formed circuit with ARITY, for a total Boolean
assignment of the inputs: after the call every gate of the circuit holds den(gate), where den is the
specification function defined by  den(g) = OP(type g)(den(operands g))  (n-ary types: the fold), inputs
read the assignment. Loop invariants (closed-form state per iteration):
  loop 1 (setdefault over the inputs): keys = assignment keys ∪ first k inputs, new ones Undefined;
  loop 2 (over top_sort(inverse=True), by ITS CONTRACT — every gate exactly once, operands before users):
          the gates yielded so far hold den, everything else is as after loop 1.
The top_sort contract used here is proved from the generator's source under C20 (vlib/props/C20.py)."""
import z3

from ..pyvc.values import Sym, LabelSort, StateSort, GTypeSort, GT, ST_T, ST_F, ST_U, Obj, Native, Unsupported, PyRaise
from ..pyvc.interp import Model, _simp
from ..pyvc.models import SymSeq
from ..pyvc.prove import Contract
from ..pyvc import circuit_model as CM
from ..pyvc import theory
from ..spec import ops as S
from .C14 import arity_pre

CIRC = 'cirbo/core/circuit/circuit.py'
I = z3.IntSort()
B = z3.BoolSort()


class AssignMap(Model):
    """dict[label -> GateState] in functional form: dom(l), val(l)"""

    def __init__(self, dom, val):
        self.dom, self.val = dom, val
        self.events = []

    def m_copy_dict(self, it):
        return AssignMap(self.dom, self.val)

    def m_contains(self, it, k):
        return _simp(self.dom(it.label_term(k)))

    def m_getitem(self, it, k):
        kt = it.label_term(k)
        if not it.ctx.choose(_simp(self.dom(kt))):
            it.raise_('KeyError', 'assignment')
        return Sym(self.val(kt))

    def m_setitem(self, it, k, v):
        kt, vt = it.label_term(k), it.state_term(v)
        d, f = self.dom, self.val
        self.dom = lambda l: z3.Or(l == kt, d(l))
        self.val = lambda l: z3.If(l == kt, vt, f(l))

    def m_getattr(self, it, name):
        if name == 'setdefault':
            def setdefault(k, default=None):
                kt, vt = it.label_term(k), it.state_term(default)
                d, f = self.dom, self.val
                self.dom = lambda l: z3.Or(l == kt, d(l))
                self.val = lambda l: z3.If(z3.And(l == kt, z3.Not(d(l))), vt, f(l))
                return Sym(self.val(kt))
            return Native('dict.setdefault', setdefault)
        raise Unsupported('assignment dict method ' + name)

    def m_restrict(self, it, n, elem, cnt):
        """{x: self[x] for x in L}"""
        i = it.ctx.fresh(I, 'irs')
        it.ctx.check('restricted-keys-available', z3.Implies(z3.And(i >= 0, i < n), self.dom(elem(i))), {'witness': 'KeyError'})
        val = self.val
        return AssignMap(lambda l: cnt(l) > 0, lambda l: val(l))

    def m_map_view(self, it, fv):
        """[self[x] for x in L]: the sequence of values (every label must be a key)"""
        i = it.ctx.fresh(I, 'imv')
        it.ctx.check('listed-keys-available', z3.Implies(z3.And(i >= 0, i < fv.n), self.dom(fv.elem(i))), {'witness': 'KeyError'})
        val = self.val
        return SymSeq([], fv.n, lambda j: Sym(val(fv.elem(j))), 'list')

    def m_map_lookup(self, it, seq):
        """(self[x] for x in seq): all keys must be present (else KeyError) — one obligation, no fork"""
        i = it.ctx.fresh(I, 'ilk')
        it.ctx.check('operand-values-available', z3.Implies(z3.And(i >= 0, i < seq.n), self.dom(seq.elem(i))), {'witness': 'KeyError'})
        val = self.val
        s = SymSeq([], seq.n, lambda j: Sym(val(seq.elem(j))), 'tuple')
        owner = getattr(seq, 'owner', None)
        if owner is not None and getattr(it, 'fold_for', None) is not None:
            it.fold_for(s, owner)
        return s


class InputsLoop:
    """for _input in self._inputs: assignment_dict.setdefault(_input, Undefined)"""

    def __init__(self, h, amap_of):
        self.h, self.amap_of = h, amap_of
        self.base = None

    def applies(self, it, env, iterable):
        return isinstance(iterable, CM.LabelList)

    def _setup(self, it, env):
        if self.base is not None:
            return
        am = self.amap_of(env)
        self.base = (am.dom, am.val)
        S0 = self.h.S
        pm = z3.Function('pm_inputs', I, LabelSort, B)
        self.pm = pm
        k, l = z3.Int('k!pm'), z3.Const('l!pm', LabelSort)
        ctx = it.ctx
        ctx.assume(z3.ForAll([l], z3.Not(pm(0, l))))
        ctx.assume(z3.ForAll([k, l], z3.Implies(z3.And(k >= 0, k < S0.in_n), pm(k + 1, l) == z3.Or(pm(k, l), S0.in_elem(k) == l)), patterns=[pm(k + 1, l)]))
        ctx.assume(z3.ForAll([l], pm(S0.in_n, l) == (S0.in_cnt(l) > 0)))       # list representation fact: membership = some position holds it

    def closed(self, k):
        d0, v0 = self.base
        pm = self.pm
        return (lambda l: z3.Or(d0(l), pm(k, l))), (lambda l: z3.If(d0(l), v0(l), ST_U))

    def inv(self, it, env, k):
        self._setup(it, env)
        am = self.amap_of(env)
        d, v = self.closed(k)
        l = it.ctx.fresh(LabelSort, 'linv')
        return [('keys', am.dom(l) == d(l)), ('values', z3.Implies(d(l), am.val(l) == v(l)))]

    def install(self, it, env, k):
        self._setup(it, env)
        am = self.amap_of(env)
        am.dom, am.val = self.closed(k)


class YieldSeq(Model):
    """result of top_sort(inverse=True) by contract: the gates y(0..n-1), n = number of gates"""

    def __init__(self, h, y, n):
        self.h, self.y, self.n = h, y, n
        self.prefix = []

    def elem(self, i):
        return CM.make_gate_obj_i(self.it, self.h.S, self.y(i))

    def concrete_len(self, it=None):
        return None


class TopSortLoop:
    def __init__(self, h, amap_of, spec):
        self.h, self.amap_of, self.spec = h, amap_of, spec
        self.base = None

    def applies(self, it, env, iterable):
        return isinstance(iterable, YieldSeq)

    def _setup(self, it, env):
        if self.base is None:
            am = self.amap_of(env)
            self.base = (am.dom, am.val)

    def closed(self, k):
        d1, v1 = self.base
        S0, pos, D = self.h.S, self.spec['pos'], self.spec['D']
        done = lambda l: z3.And(S0.dom(l), S0.typ(l) != GT['INPUT'], pos(l) < k)
        return (lambda l: z3.Or(d1(l), done(l))), (lambda l: z3.If(done(l), theory.state_of_bool(D(l)), v1(l)))

    def inv(self, it, env, k):
        self._setup(it, env)
        am = self.amap_of(env)
        d, v = self.closed(k)
        l = it.ctx.fresh(LabelSort, 'linv')
        return [('keys', am.dom(l) == d(l)), ('values', z3.Implies(d(l), am.val(l) == v(l)))]

    def install(self, it, env, k):
        self._setup(it, env)
        am = self.amap_of(env)
        am.dom, am.val = self.closed(k)


def den_spec(ctx, S0, val_in, tag='D'):
    """Specification den over an arbitrary WF circuit with ARITY: uninterpreted D(l) with its defining equations.
    val_in(l): Bool value of input l. Returns dict with D and the fold functions."""
    D = z3.Function(tag, LabelSort, B)
    folds = {t: z3.Function(f'F{t}@{tag}', LabelSort, I, B) for t in ('AND', 'OR', 'XOR')}
    l, k = z3.Const('l!D', LabelSort), z3.Int('k!D')
    op = S0.op
    ctx.assume(z3.ForAll([l], z3.Implies(z3.And(S0.dom(l), S0.typ(l) == GT['INPUT']), D(l) == val_in(l))))
    for t in S.GATE_TYPES:
        if t == 'INPUT':
            continue
        if t in S.NARY:
            base = {'NAND': 'AND', 'NOR': 'OR', 'NXOR': 'XOR'}.get(t, t)
            F = folds[base]
            v = F(l, S0.nops(l) - 2)
            ctx.assume(z3.ForAll([l], z3.Implies(z3.And(S0.dom(l), S0.typ(l) == GT[t]), D(l) == (z3.Not(v) if t != base else v))))
        elif t in S.CONST:
            ctx.assume(z3.ForAll([l], z3.Implies(z3.And(S0.dom(l), S0.typ(l) == GT[t]), D(l) == z3.BoolVal(t == 'ALWAYS_TRUE'))))
        else:
            n = 1 if t in S.UNARY else 2
            ctx.assume(z3.ForAll([l], z3.Implies(z3.And(S0.dom(l), S0.typ(l) == GT[t]), D(l) == theory.OPz(t, [D(op(l, z3.IntVal(j))) for j in range(n)]))))
    for base, F in folds.items():
        stepf, _ = theory.step(base)
        ctx.assume(z3.ForAll([l], F(l, 0) == stepf(D(op(l, 0)), D(op(l, 1)))))
        ctx.assume(z3.ForAll([l, k], z3.Implies(k >= 0, F(l, k + 1) == stepf(F(l, k), D(op(l, k + 2)))), patterns=[F(l, k + 1)]))
    return {'D': D, 'folds': folds}


class EvaluateFull(Contract):
    relpath, qualname, name = CIRC, 'Circuit.evaluate_full_circuit', 'evaluate_full_circuit'

    def setup(self, it, ctx):
        c, h = CM.make_circuit(it, ctx, tag='c')
        S0 = h.S
        l = z3.Const('L!ar', LabelSort)
        ctx.assume(z3.ForAll([l], z3.Implies(S0.dom(l), arity_pre(S0, l))))          # ARITY (W6)
        ctx.assume(z3.ForAll([l], S0.rank(l) >= 0))
        # the argument: keys = exactly some labels incl. possibly extra ones; inputs that are keys have Boolean values
        ad = z3.Function('adom', LabelSort, B)
        av = z3.Function('aval', LabelSort, StateSort)
        ctx.assume(z3.ForAll([l], z3.Implies(S0.in_cnt(l) > 0, z3.And(ad(l), av(l) != ST_U))))      # total Boolean assignment of the inputs
        ctx.assume(z3.ForAll([l], z3.Implies(ad(l), z3.Or(S0.in_cnt(l) > 0, z3.Not(S0.dom(l))))))     # other keys are not gates of the circuit
        am = AssignMap(lambda x: ad(x), lambda x: av(x))
        spec = den_spec(ctx, S0, lambda x: av(x) == ST_T)
        # contract of top_sort(inverse=True): a bijection pos between gates and 0..size-1, operands first
        pos = z3.Function('pos', LabelSort, I)
        y = z3.Function('yield', I, LabelSort)
        i = z3.Int('i!ts')
        n = S0.size
        ctx.assume(z3.ForAll([i], z3.Implies(z3.And(i >= 0, i < n), z3.And(S0.dom(y(i)), pos(y(i)) == i))))
        ctx.assume(z3.ForAll([l], z3.Implies(S0.dom(l), z3.And(pos(l) >= 0, pos(l) < n, y(pos(l)) == l))))
        ctx.assume(z3.ForAll([l, i], z3.Implies(z3.And(S0.dom(l), i >= 0, i < S0.nops(l)), pos(S0.op(l, i)) < pos(l))))
        spec['pos'] = pos
        st = {'h': h, 'S0': S0, 'am': am, 'spec': spec, 'ad': ad, 'av': av}

        def top_sort(it_, fv, args, kwargs):
            if not kwargs.get('inverse'):
                raise Unsupported('top_sort(inverse=False) has no contract here')
            ys = YieldSeq(h, lambda j: y(j), n)
            ys.it = it_
            return ys
        it.contracts[CIRC + '::Circuit.top_sort'] = top_sort
        find = lambda env: env['assignment_dict']
        it.loop_specs[(CIRC + '::Circuit.evaluate_full_circuit', 1)] = InputsLoop(h, find)
        it.loop_specs[(CIRC + '::Circuit.evaluate_full_circuit', 2)] = TopSortLoop(h, find, spec)

        def fold_for(seq, owner):
            """fold invariant of reduce over the operand values of gate `owner` (rest index k: k+2 operands consumed)"""
            def inv(it_, acc, k):
                t = S0.typ(owner)
                cases = []
                for base in ('AND', 'OR', 'XOR'):
                    neg = {'AND': 'NAND', 'OR': 'NOR', 'XOR': 'NXOR'}[base]
                    cases.append(z3.Implies(z3.Or(t == GT[base], t == GT[neg]), it_.state_term(acc) == theory.state_of_bool(spec['folds'][base](owner, k))))
                return [('acc-is-fold', z3.And(cases))]
            seq.fold_inv = inv
            seq.fold_havoc = lambda it_: Sym(it_.ctx.fresh(StateSort, 'acc'))
        it.fold_for = fold_for
        return [c, am], {}, st

    def post(self, it, ctx, result, st):
        it.fold_for = None
        S0, D = st['S0'], st['spec']['D']
        if not isinstance(result, AssignMap):
            yield ('returns-the-assignment-dict', z3.BoolVal(False))
            return
        l = ctx.fresh(LabelSort, 'lres')
        yield ('every-gate-has-a-value', z3.Implies(S0.dom(l), result.dom(l)))
        yield ('every-gate-holds-den', z3.Implies(S0.dom(l), result.val(l) == theory.state_of_bool(D(l))), {'witness': 'den'})
        yield ('circuit-unchanged', z3.BoolVal(not [e for e in st['h'].events if e[0] in ('gate-write', 'gate-del')]))

    def on_raise(self, it, ctx, exc, st):
        it.fold_for = None
        return Contract.on_raise(self, it, ctx, exc, st)


def _prepare(it):
    it.loop_specs.clear()
    it.contracts.clear()
    it.fold_for = None


def add_c01(rep, pv, it):
    """both evaluation loops; VCs generated in forked children (35 s and 15 s of single-threaded symbolic execution)"""
    pv.start_child(EvaluateFull, _prepare)
    pv.start_child(lambda: EvaluateCircuit(), _prepare)
    # public entry points against the contract of evaluate_circuit
    for w in ('evaluate', 'evaluate_at'):
        _prepare(it)
        pv.run_contract(EvaluateEntry(w))
    _prepare(it)
    it.symbolic_enumerate = False
    it.filter_views = False




# ================================================================== evaluate_circuit (explicit stack) =========
def stack_view(it, q):
    """(n, elem) of the work list: a concrete python list before the first cut loop, an AbsStack afterwards"""
    from ..pyvc.values import VList
    if isinstance(q, CM.AbsStack):
        return q.n, q.elem
    if isinstance(q, VList):
        items = [it.label_term(x) for x in q.items]

        def elem(i, items=items):
            r = items[-1] if items else z3.Const('nolabel', LabelSort)
            for j in range(len(items) - 2, -1, -1):
                r = z3.If(i == j, items[j], r)
            return r
        return z3.IntVal(len(items)), elem
    raise Unsupported('work list of type ' + type(q).__name__)


class QSpec:
    """havoc+invariant loop specs over env['queue_'] / env['assignment_dict'] with quantified assumptions"""

    def fresh_stack(self, it, env):
        Ghostn[0] += 1
        e = z3.Function(f'stk!{Ghostn[0]}', I, LabelSort)
        n = it.ctx.fresh(I, 'stkn')
        it.ctx.assume(n >= 0)
        env['queue_'] = CM.AbsStack(n, lambda i: e(i))

    def inv(self, it, env, k):
        ctx = it.ctx
        return self.formulas(it, env, k, ctx.fresh(LabelSort, 'lq'), ctx.fresh(I, 'iq'), ctx.fresh(I, 'jq'))

    def inv_assume(self, it, env, k):
        l = z3.Const('l!q', LabelSort)
        i, j = z3.Ints('i!q j!q')
        return [(nm, z3.ForAll([l, i, j], f)) for nm, f in self.formulas(it, env, k, l, i, j)]


Ghostn = [0]


class PushOutputs(QSpec):
    """for output in _outputs: if output not in self._inputs: queue_.append(output)"""

    def __init__(self, c):
        self.c = c

    def applies(self, it, env, iterable):
        return isinstance(iterable, CM.LabelList)

    def havoc(self, it, env):
        self.fresh_stack(it, env)

    def formulas(self, it, env, k, l, i, j):
        S0 = self.c.S0
        n, elem = stack_view(it, env['queue_'])
        ii = z3.Int('ii!po')
        return [('stack-holds-non-input-gates', z3.Implies(z3.And(i >= 0, i < n), z3.And(S0.dom(elem(i)), S0.typ(elem(i)) != GT['INPUT']))),
                ('seen-non-input-outputs-are-on-the-stack', z3.Implies(z3.And(j >= 0, j < k, S0.in_cnt(S0.out_elem(j)) == 0),
                                                                        z3.Exists([ii], z3.And(ii >= 0, ii < n, elem(ii) == S0.out_elem(j)))))]


class EvalOuter(QSpec):
    def __init__(self, c):
        self.c = c
        self.base = None

    def _setup(self, env):
        if self.base is None:
            am = env['assignment_dict']
            self.base = (am.dom, am.val)

    def havoc(self, it, env):
        self._setup(env)
        self.fresh_stack(it, env)
        Ghostn[0] += 1
        d = z3.Function(f'amd!{Ghostn[0]}', LabelSort, B)
        v = z3.Function(f'amv!{Ghostn[0]}', LabelSort, StateSort)
        am = env['assignment_dict']
        am.dom, am.val = (lambda x: d(x)), (lambda x: v(x))

    def formulas(self, it, env, k, l, i, j):
        self._setup(env)
        S0, D = self.c.S0, self.c.spec['D']
        d1, v1 = self.base
        am = env['assignment_dict']
        n, elem = stack_view(it, env['queue_'])
        ii = z3.Int('ii!eo')
        nonin = lambda x: z3.And(S0.dom(x), S0.typ(x) != GT['INPUT'])
        holds_den = below(am.val(l), D(l)) if self.c.sound else am.val(l) == theory.state_of_bool(D(l))      # partial assignments: U or den of the completion
        return [('computed-values-are-den', z3.Implies(z3.And(am.dom(l), nonin(l)), holds_den)),
                ('initial-keys-kept', z3.Implies(d1(l), z3.And(am.dom(l), am.val(l) == v1(l)))),
                ('keys-are-initial-or-non-input-gates', z3.Implies(am.dom(l), z3.Or(d1(l), nonin(l)))),
                ('stack-holds-non-input-gates', z3.Implies(z3.And(i >= 0, i < n), nonin(elem(i)))),
                ('requested-outputs-evaluated-or-on-the-stack', z3.Implies(z3.And(j >= 0, j < S0.out_n, S0.in_cnt(S0.out_elem(j)) == 0),
                                                                           z3.Or(am.dom(S0.out_elem(j)), z3.Exists([ii], z3.And(ii >= 0, ii < n, elem(ii) == S0.out_elem(j))))))]


class EvalInner(QSpec):
    """for operand in cur_gate.operands: if operand not in assignment_dict: queue_.append(operand)"""

    def __init__(self, c):
        self.c = c
        self.base = None

    def applies(self, it, env, iterable):
        return isinstance(iterable, CM.OpsSeq) and iterable.concrete_len(it) is None

    def _setup(self, it, env):
        if self.base is None:
            n, e = stack_view(it, env['queue_'])
            self.base = (n, e)
            self.cur = it.label_term(it.getattr(env['cur_gate'], 'label'))

    def havoc(self, it, env):
        self._setup(it, env)
        self.fresh_stack(it, env)

    def formulas(self, it, env, k, l, i, j):
        self._setup(it, env)
        S0 = self.c.S0
        n0, e0 = self.base
        cur = self.cur
        am = env['assignment_dict']
        n, elem = stack_view(it, env['queue_'])
        return [('stack-only-grows', n >= n0),
                ('old-part-unchanged', z3.Implies(z3.And(i >= 0, i < n0), elem(i) == e0(i))),
                ('pushed-are-missing-operands', z3.Implies(z3.And(i >= n0, i < n), z3.And(S0.opc(cur, elem(i)) > 0, z3.Not(am.dom(elem(i)))))),
                ('nothing-pushed-means-all-seen-operands-available', z3.Implies(z3.And(n == n0, j >= 0, j < k), am.dom(S0.op(cur, j))))]


class FinalDefaults:
    """for _gate in self.gates: assignment_dict.setdefault(_gate, Undefined) — closed form over the key enumeration"""

    def __init__(self, c):
        self.c = c
        self.base = None

    def applies(self, it, env, iterable):
        if isinstance(iterable, CM.GatesMap):
            iterable.enumeration(it.ctx)
            return True
        return False

    def _setup(self, it, env):
        if self.base is None:
            am = env['assignment_dict']
            self.base = (am.dom, am.val)
            self.pos = self.c.h.obj.fields['_gates'].enumeration(it.ctx)[1]

    def closed(self, k):
        d0, v0 = self.base
        S0, pos = self.c.S0, self.pos
        return (lambda l: z3.Or(d0(l), z3.And(S0.dom(l), pos(l) < k))), (lambda l: z3.If(d0(l), v0(l), ST_U))

    def inv(self, it, env, k):
        self._setup(it, env)
        am = env['assignment_dict']
        d, v = self.closed(k)
        l = it.ctx.fresh(LabelSort, 'lfd')
        return [('keys', am.dom(l) == d(l)), ('values', z3.Implies(d(l), am.val(l) == v(l)))]

    def install(self, it, env, k):
        self._setup(it, env)
        am = env['assignment_dict']
        am.dom, am.val = self.closed(k)


class EvaluateCircuit(EvaluateFull):
    qualname, name = 'Circuit.evaluate_circuit', 'evaluate_circuit'

    sound = False

    def base_setup(self, it, ctx):
        return EvaluateFull.setup(self, it, ctx)

    def setup(self, it, ctx):
        args, kwargs, st = self.base_setup(it, ctx)
        h, S0 = st['h'], st['S0']
        self.h, self.S0, self.spec = h, S0, st['spec']
        u, g = z3.Consts('u!w5 g!w5', LabelSort)
        ctx.assume(z3.ForAll([u, g], z3.Implies(z3.And(S0.dom(u), S0.opc(u, g) > 0), S0.rank(g) < S0.rank(u))))      # W5 in count form (view link)
        it.contracts.pop(CIRC + '::Circuit.top_sort', None)
        find = lambda env: env['assignment_dict']
        it.loop_specs.clear()
        it.loop_specs[(CIRC + '::Circuit.evaluate_circuit', 1)] = InputsLoop(h, find)
        it.loop_specs[(CIRC + '::Circuit.evaluate_circuit', 2)] = PushOutputs(self)
        it.loop_specs[(CIRC + '::Circuit.evaluate_circuit', 3)] = EvalOuter(self)
        it.loop_specs[(CIRC + '::Circuit.evaluate_circuit', 4)] = EvalInner(self)
        it.loop_specs[(CIRC + '::Circuit.evaluate_circuit', 5)] = FinalDefaults(self)
        return args, kwargs, st

    def post(self, it, ctx, result, st):
        it.fold_for = None
        S0, D = st['S0'], st['spec']['D']
        if not isinstance(result, AssignMap):
            yield ('returns-the-assignment-dict', z3.BoolVal(False))
            return
        l = ctx.fresh(LabelSort, 'lres')
        j = ctx.fresh(I, 'jres')
        o = S0.out_elem(j)
        yield ('every-gate-has-a-value', z3.Implies(S0.dom(l), result.dom(l)))
        yield ('every-output-holds-den', z3.Implies(z3.And(j >= 0, j < S0.out_n), z3.And(result.dom(o), result.val(o) == theory.state_of_bool(D(o)))), {'witness': 'den'})
        yield ('other-gates-hold-den-or-undefined', z3.Implies(S0.dom(l), z3.Or(result.val(l) == theory.state_of_bool(D(l)), result.val(l) == ST_U)))
        yield ('circuit-unchanged', z3.BoolVal(not [e for e in st['h'].events if e[0] in ('gate-write', 'gate-del')]))


class _Totality:
    """C15, third clause: under a total Boolean assignment no evaluated gate is Undefined (same loop invariants as
    C01; only the totality clauses are emitted here)"""

    def post(self, it, ctx, result, st):
        it.fold_for = None
        S0 = st['S0']
        if not isinstance(result, AssignMap):
            yield ('returns-the-assignment-dict', z3.BoolVal(False))
            return
        l = ctx.fresh(LabelSort, 'lres')
        j = ctx.fresh(I, 'jres')
        if self.full:
            yield ('total-assignment/no-gate-undefined', z3.Implies(S0.dom(l), result.val(l) != ST_U), {'witness': 'undefined-under-total-assignment'})
        else:
            o = S0.out_elem(j)
            yield ('total-assignment/no-requested-output-undefined', z3.Implies(z3.And(j >= 0, j < S0.out_n), result.val(o) != ST_U), {'witness': 'undefined-under-total-assignment'})


class TotalFull(_Totality, EvaluateFull):
    full = True
    name = 'evaluate_full_circuit/totality'


class TotalStack(_Totality, EvaluateCircuit):
    full = False
    name = 'evaluate_circuit/totality'


def add_c15(rep, pv, it):
    pv.start_child(TotalFull, _prepare)
    pv.start_child(lambda: TotalStack(), _prepare)
    pv.start_child(lambda: SoundFull(), _prepare)
    pv.start_child(lambda: SoundStack(), _prepare)


# =====================================================================================================================
# C15, first clause at circuit level: evaluation under a PARTIAL assignment is sound. For an arbitrary partial assignment
# (inputs may be missing or Undefined) and an arbitrary COMPLETION compl of it, every value returned by
# evaluate_full_circuit is Undefined or equals den under the completion:   result(g) = U  or  result(g) = den_compl(g).
# Loop 2 (over top_sort by its contract) by the invariant "keys = initial keys + gates yielded so far; the yielded
# gates and the inputs hold U or den_compl"; n-ary operators by the fold invariant "acc = U or acc = the Boolean fold".
# =====================================================================================================================
def below(v, b):
    """v ⊑ state_of_bool(b) in the information order"""
    return z3.Or(v == ST_U, v == theory.state_of_bool(b))


class TopSortLoopSound:
    def __init__(self, h, amap_of, spec):
        self.h, self.amap_of, self.spec = h, amap_of, spec
        self.base = None

    def applies(self, it, env, iterable):
        return isinstance(iterable, YieldSeq)

    def _setup(self, it, env):
        if self.base is None:
            am = self.amap_of(env)
            self.base = (am.dom, am.val)

    def havoc(self, it, env):
        self._setup(it, env)
        Ghostn[0] += 1
        d = z3.Function(f'amds!{Ghostn[0]}', LabelSort, B)
        v = z3.Function(f'amvs!{Ghostn[0]}', LabelSort, StateSort)
        am = self.amap_of(env)
        am.dom, am.val = (lambda x: d(x)), (lambda x: v(x))

    def _f(self, it, env, k, l):
        self._setup(it, env)
        d1, v1 = self.base
        S0, pos, D = self.h.S, self.spec['pos'], self.spec['D']
        am = self.amap_of(env)
        done = z3.And(S0.dom(l), S0.typ(l) != GT['INPUT'], pos(l) < k)
        return [('keys', am.dom(l) == z3.Or(d1(l), done)),
                ('untouched-keys-keep-their-values', z3.Implies(z3.And(d1(l), z3.Not(done)), am.val(l) == v1(l))),
                ('evaluated-gates-sound', z3.Implies(done, below(am.val(l), D(l))))]

    def inv(self, it, env, k):
        return self._f(it, env, k, it.ctx.fresh(LabelSort, 'ls'))

    def inv_assume(self, it, env, k):
        l = z3.Const('l!tss', LabelSort)
        return [(nm, z3.ForAll([l], f)) for nm, f in self._f(it, env, k, l)]


class SoundFull(EvaluateFull):
    name = 'evaluate_full_circuit/partial-assignment-sound'

    def setup(self, it, ctx):
        c, h = CM.make_circuit(it, ctx, tag='c')
        S0 = h.S
        l = z3.Const('L!ar', LabelSort)
        ctx.assume(z3.ForAll([l], z3.Implies(S0.dom(l), arity_pre(S0, l))))          # ARITY (W6)
        ctx.assume(z3.ForAll([l], S0.rank(l) >= 0))
        # an ARBITRARY partial assignment: any keys (inputs or labels that are not gates), any values
        ad = z3.Function('adom', LabelSort, B)
        av = z3.Function('aval', LabelSort, StateSort)
        ctx.assume(z3.ForAll([l], z3.Implies(ad(l), z3.Or(S0.in_cnt(l) > 0, z3.Not(S0.dom(l))))))
        am = AssignMap(lambda x: ad(x), lambda x: av(x))
        # an arbitrary completion: agrees with the assignment wherever that is Boolean
        compl = z3.Function('completion', LabelSort, B)
        ctx.assume(z3.ForAll([l], z3.Implies(z3.And(S0.in_cnt(l) > 0, ad(l), av(l) != ST_U), compl(l) == (av(l) == ST_T))))
        spec = den_spec(ctx, S0, lambda x: compl(x), tag='Dc')
        pos = z3.Function('pos', LabelSort, I)
        y = z3.Function('yield', I, LabelSort)
        i = z3.Int('i!ts')
        n = S0.size
        ctx.assume(z3.ForAll([i], z3.Implies(z3.And(i >= 0, i < n), z3.And(S0.dom(y(i)), pos(y(i)) == i))))
        ctx.assume(z3.ForAll([l], z3.Implies(S0.dom(l), z3.And(pos(l) >= 0, pos(l) < n, y(pos(l)) == l))))
        ctx.assume(z3.ForAll([l, i], z3.Implies(z3.And(S0.dom(l), i >= 0, i < S0.nops(l)), pos(S0.op(l, i)) < pos(l))))
        spec['pos'] = pos
        st = {'h': h, 'S0': S0, 'am': am, 'spec': spec, 'ad': ad, 'av': av}

        def top_sort(it_, fv, args, kwargs):
            if not kwargs.get('inverse'):
                raise Unsupported('top_sort(inverse=False) has no contract here')
            ys = YieldSeq(h, lambda j: y(j), n)
            ys.it = it_
            return ys
        it.contracts[CIRC + '::Circuit.top_sort'] = top_sort
        find = lambda env: env['assignment_dict']
        it.loop_specs[(CIRC + '::Circuit.evaluate_full_circuit', 1)] = InputsLoop(h, find)
        it.loop_specs[(CIRC + '::Circuit.evaluate_full_circuit', 2)] = TopSortLoopSound(h, find, spec)

        def fold_for(seq, owner):
            def inv(it_, acc, k):
                t = S0.typ(owner)
                cases = []
                for base in ('AND', 'OR', 'XOR'):
                    neg = {'AND': 'NAND', 'OR': 'NOR', 'XOR': 'NXOR'}[base]
                    cases.append(z3.Implies(z3.Or(t == GT[base], t == GT[neg]), below(it_.state_term(acc), spec['folds'][base](owner, k))))
                return [('acc-below-the-boolean-fold', z3.And(cases))]
            seq.fold_inv = inv
            seq.fold_havoc = lambda it_: Sym(it_.ctx.fresh(StateSort, 'acc'))
        it.fold_for = fold_for
        return [c, am], {}, st

    def post(self, it, ctx, result, st):
        it.fold_for = None
        S0, D = st['S0'], st['spec']['D']
        if not isinstance(result, AssignMap):
            yield ('returns-the-assignment-dict', z3.BoolVal(False))
            return
        l = ctx.fresh(LabelSort, 'lres')
        yield ('every-gate-has-a-value', z3.Implies(S0.dom(l), result.dom(l)))
        yield ('every-value-is-undefined-or-den-of-the-completion', z3.Implies(S0.dom(l), below(result.val(l), D(l))), {'witness': 'unsound-under-partial-assignment'})
        yield ('circuit-unchanged', z3.BoolVal(not [e for e in st['h'].events if e[0] in ('gate-write', 'gate-del')]))


class SoundStack(EvaluateCircuit):
    """evaluate_circuit (explicit stack) under an arbitrary partial assignment: every value is Undefined or den of an arbitrary completion"""
    name = 'evaluate_circuit/partial-assignment-sound'
    sound = True

    def base_setup(self, it, ctx):
        return SoundFull.setup(self, it, ctx)

    def post(self, it, ctx, result, st):
        it.fold_for = None
        S0, D = st['S0'], st['spec']['D']
        if not isinstance(result, AssignMap):
            yield ('returns-the-assignment-dict', z3.BoolVal(False))
            return
        l = ctx.fresh(LabelSort, 'lres')
        yield ('every-gate-has-a-value', z3.Implies(S0.dom(l), result.dom(l)))
        yield ('every-value-is-undefined-or-den-of-the-completion', z3.Implies(S0.dom(l), below(result.val(l), D(l))), {'witness': 'unsound-under-partial-assignment'})
        yield ('circuit-unchanged', z3.BoolVal(not [e for e in st['h'].events if e[0] in ('gate-write', 'gate-del')]))


# =====================================================================================================================
# C01 at the public entry points: Circuit.evaluate(inputs) and Circuit.evaluate_at(inputs, j) on an arbitrary well-formed
# circuit with ARITY, for every Boolean input vector of the right length: the j-th returned value is den of the j-th
# output, where den reads input number i from inputs[i]. evaluate_circuit is used through its CONTRACT (proved above:
# C01/evaluate_circuit/*): for a total Boolean assignment of the inputs every requested output holds den.
# Loop 1 (`for i, _input in enumerate(self._inputs): dict_inputs[_input] = inputs[i]`) by the closed form
# "keys = the first k inputs, value of input number i = inputs[i]".
# =====================================================================================================================
class BuildAssignLoop:
    def __init__(self, c):
        self.c = c
        self.pm = None

    def applies(self, it, env, iterable):
        return getattr(iterable, 'enumerated', None) is not None

    def _setup(self, it, env):
        if self.pm is not None:
            return
        S0 = self.c.S0
        Ghostn[0] += 1
        pm = z3.Function(f'pm_build!{Ghostn[0]}', I, LabelSort, B)
        self.pm = pm
        k, l = z3.Int('k!pb'), z3.Const('l!pb', LabelSort)
        ctx = it.ctx
        ctx.assume(z3.ForAll([l], z3.Not(pm(0, l))))
        ctx.assume(z3.ForAll([k, l], z3.Implies(z3.And(k >= 0, k < S0.in_n), pm(k + 1, l) == z3.Or(pm(k, l), S0.in_elem(k) == l)), patterns=[pm(k + 1, l)]))
        ctx.assume(z3.ForAll([l], pm(S0.in_n, l) == (S0.in_cnt(l) > 0)))
        ctx.assume(z3.ForAll([k, l], z3.Implies(z3.And(k >= 0, k <= S0.in_n, pm(k, l)), z3.And(S0.in_cnt(l) > 0, self.c.inpos(l) < k)), patterns=[pm(k, l)]))

    def closed(self, k):
        c = self.c
        return (lambda l: self.pm(k, l)), (lambda l: theory.state_of_bool(c.IV(c.inpos(l))))

    def inv(self, it, env, k):
        self._setup(it, env)
        cur = env['dict_inputs']
        d, v = self.closed(k)
        l = it.ctx.fresh(LabelSort, 'lb')
        if not isinstance(cur, AssignMap):
            from ..pyvc.values import VDict
            return [('starts-empty', z3.And(z3.BoolVal(isinstance(cur, VDict) and not cur.d), k == 0))]
        return [('keys-are-the-first-k-inputs', cur.dom(l) == d(l)), ('input-i-gets-inputs[i]', z3.Implies(d(l), cur.val(l) == v(l)))]

    def install(self, it, env, k):
        self._setup(it, env)
        d, v = self.closed(k)
        env['dict_inputs'] = AssignMap(d, v)
        # instance of the position lemma at the current element (hint): the k-th input sits at position k only
        c = self.c
        it.ctx.assume(z3.Implies(z3.And(k >= 0, k < c.S0.in_n), c.inpos(c.S0.in_elem(k)) == k))


class EvaluateEntry(Contract):
    relpath = CIRC

    def __init__(self, which):
        self.which = which                      # 'evaluate' | 'evaluate_at'
        self.qualname = 'Circuit.' + which
        self.name = which + '/any-circuit'

    def setup(self, it, ctx):
        c, h = CM.make_circuit(it, ctx, tag='c')
        S0 = h.S
        self.S0, self.h = S0, h
        it.symbolic_enumerate = True
        it.filter_views = True
        l = z3.Const('L!ee', LabelSort)
        i, j = z3.Ints('i!ee j!ee')
        ctx.assume(z3.ForAll([l], z3.Implies(S0.dom(l), arity_pre(S0, l))))          # ARITY (W6)
        ctx.assume(z3.ForAll([l], S0.rank(l) >= 0))
        IVf = z3.Function('inputs_vector', I, B)
        self.IV = lambda q: IVf(q)
        # position of an input in the input list (representation facts; two equal positions would count >= 2, impossible by W4)
        pf = z3.Function('inpos', LabelSort, I)
        self.inpos = lambda q: pf(q)
        ctx.assume(z3.ForAll([l], z3.Implies(S0.in_cnt(l) > 0, z3.And(pf(l) >= 0, pf(l) < S0.in_n, S0.in_elem(pf(l)) == l))))
        ctx.assume(z3.ForAll([i], z3.Implies(z3.And(i >= 0, i < S0.in_n), pf(S0.in_elem(i)) == i)))           # (lean: two_positions_count + W4)
        spec = den_spec(ctx, S0, lambda x: IVf(pf(x)), tag='De')
        D = spec['D']
        inputs = SymSeq([], S0.in_n, lambda q: Sym(IVf(q)), 'list')          # precondition: len(inputs) == number of inputs
        it.loop_specs[(CIRC + '::Circuit.' + self.which, 1)] = BuildAssignLoop(self)
        st = {'h': h, 'S0': S0, 'D': D}

        def evaluate_circuit(it_, fv, args, kwargs):
            """contract of Circuit.evaluate_circuit(assignment, outputs=None) proved as C01/evaluate_circuit/*"""
            am = args[1] if len(args) > 1 else kwargs['assignment']
            outs = kwargs.get('outputs')
            c_ = it_.ctx
            q = c_.fresh(LabelSort, 'lpre')
            c_.check('evaluate_circuit/pre/assignment-total-boolean-on-the-inputs', z3.Implies(S0.in_cnt(q) > 0, z3.And(am.dom(q), am.val(q) != ST_U)))
            c_.check('evaluate_circuit/pre/assignment-keys-are-inputs-or-foreign', z3.Implies(am.dom(q), z3.Or(S0.in_cnt(q) > 0, z3.Not(S0.dom(q)))))
            c_.check('evaluate_circuit/pre/assignment-is-the-one-den-reads', z3.Implies(S0.in_cnt(q) > 0, (am.val(q) == ST_T) == IVf(pf(q))))
            Ghostn[0] += 1
            rd = z3.Function(f'resd!{Ghostn[0]}', LabelSort, B)
            rv = z3.Function(f'resv!{Ghostn[0]}', LabelSort, StateSort)
            x = z3.Const('x!ec', LabelSort)
            c_.assume(z3.ForAll([x], z3.Implies(S0.dom(x), rd(x))))
            if outs is None:
                c_.assume(z3.ForAll([x], z3.Implies(S0.out_cnt(x) > 0, z3.And(rd(x), rv(x) == theory.state_of_bool(D(x))))))
            else:
                req = [it_.label_term(o) for o in it_.iterate(outs)]
                for o in req:
                    c_.check('evaluate_circuit/pre/requested-output-is-a-gate', S0.dom(o))
                    c_.assume(z3.And(rd(o), rv(o) == theory.state_of_bool(D(o))))
            return AssignMap(lambda y: rd(y), lambda y: rv(y))
        it.contracts[CIRC + '::Circuit.evaluate_circuit'] = evaluate_circuit
        if self.which == 'evaluate':
            return [c, inputs], {}, st
        jo = z3.Int('out_index')
        ctx.assume(z3.And(jo >= 0, jo < S0.out_n))          # precondition: a valid output index
        st['jo'] = jo
        return [c, inputs, Sym(jo)], {}, st

    def post(self, it, ctx, result, st):
        S0, D = st['S0'], st['D']
        if self.which == 'evaluate':
            ok = isinstance(result, SymSeq)
            yield ('returns-a-list', z3.BoolVal(ok))
            if not ok:
                return
            j = ctx.fresh(I, 'jr')
            yield ('one-value-per-output', result.n == S0.out_n)
            e = result.elem(j)
            yield ('value-j-is-den-of-output-j', z3.Implies(z3.And(j >= 0, j < S0.out_n), it.state_term(e) == theory.state_of_bool(D(S0.out_elem(j)))), {'witness': 'den'})
        else:
            yield ('value-is-den-of-the-output', it.state_term(result) == theory.state_of_bool(D(S0.out_elem(st['jo']))), {'witness': 'den'})
        yield ('circuit-unchanged', z3.BoolVal(not [ev for ev in st['h'].events if ev[0] in ('gate-write', 'gate-del')]))

"""Evaluation loops (evaluate_full_circuit, evaluate_circuit) under contract — shared by C01 and C15."""


def add_c01(rep, pv, it):
    pass


def add_c15(rep, pv, it):
    pass

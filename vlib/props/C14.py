"""C14  Conversion to the bench basis preserves the function.

P: convert_gate (dispatch + all ten _convert_* rewrites inlined down to _add_user/_remove_user) on an
   arbitrary well-formed circuit and an arbitrary gate of it: WF preserved (users multiset, inputs,
   outputs, acyclicity by ghost rank, blocks), frame (only the rewritten gate and one fresh helper
   change), local semantic equation (new definition of the gate computes the old one), bench types,
   helper gate inside exactly the blocks that contained the gate.
   into_bench as a whole on an arbitrary circuit (c14_loop.py): loop invariant, convert_gate by its contract: WF, only bench types remain,
   original gates / inputs / outputs kept, new equations imply the original ones.
B: into_bench as a whole on enumerated circuits (vlib/bounded/C14.py)."""
import z3

from .. import env
from ..pyvc.values import Sym, LabelSort, GT, GTYPE_NAMES, Obj, Unsupported
from ..pyvc.prove import Prover, Contract
from ..pyvc import theory
from ..pyvc import circuit_model as CM
from ..spec import ops as S
from ..spec import net as N
from .common import new_interp, finish_refuted, canary, STD_TRUSTED, STD_ASSUME, real

LEVEL = 'other'
CONV = 'cirbo/core/circuit/converters.py'
I = z3.IntSort()


def arity_pre(Sx, g):
    """W6 for the gate g (precondition of conversion / evaluation contracts)."""
    t, n = Sx.typ(g), Sx.nops(g)
    cases = []
    for name in GTYPE_NAMES:
        if name == 'INPUT':
            c = n == 0
        elif name in S.CONST:
            c = n >= 0
        elif name in S.UNARY:
            c = n == 1
        elif name in S.BINARY:
            c = n == 2
        else:
            c = n >= 2
        cases.append(z3.Implies(t == GT[name], c))
    return z3.And(cases)


def resolve_type(ctx, term):
    """the gate type constant a term is forced to on this path (None if not unique)"""
    t = z3.simplify(term)
    for name in GTYPE_NAMES:
        if t.eq(GT[name]):
            return name
    found = None
    for name in GTYPE_NAMES:
        if ctx.feasible(term == GT[name]):
            if found is not None:
                return None
            found = name
    return found


def resolve_int(ctx, term, hi=4):
    t = z3.simplify(term)
    if z3.is_int_value(t):
        return t.as_long()
    found = None
    for k in range(hi + 1):
        if ctx.feasible(term == k):
            if found is not None:
                return None
            found = k
    if found is not None and ctx.feasible(term > hi):
        return None
    return found


def replay_into_bench(tname, ops_kind):
    """native replay: tiny circuit with one gate of the type, converted by the real into_bench"""
    from cirbo.core.circuit import Circuit, gate
    c = Circuit()
    c.add_inputs(['a', 'b'])
    ar = {'same': ('a', 'a'), 'two': ('a', 'b'), 'one': ('a',), 'none': ()}[ops_kind]
    c.emplace_gate('g', getattr(gate, tname), ar)
    c.emplace_gate('h', gate.OR, ('g', 'b'))
    c.set_outputs(['h', 'g'])
    c.make_block('blk', ['g'], ['g'])
    before = N.snapshot(c)
    tt0 = N.tt(before)
    c.into_bench()
    after = N.snapshot(c)
    bad = N.wf_violations(after) + N.topsort_ok(c, after)
    if bad:
        return False, f'into_bench on {tname}{ar}: {bad[:2]}'
    if N.tt(after) != tt0:
        return False, f'into_bench on {tname}{ar}: truth table changed {tt0} -> {N.tt(after)}'
    rest = [t for t, _ in after.gates.values() if t not in S.BENCH_TYPES]
    if rest:
        return False, f'into_bench on {tname}{ar}: non-bench types remain {rest}'
    new = [l for l in after.gates if l not in before.gates]
    for l in new:
        if l not in after.blocks['blk']['gates']:
            return False, f'into_bench on {tname}{ar}: helper gate {l} not in block of g'
    return True, f'into_bench on {tname}{ar} ok'


class ConvertGate(Contract):
    """convert_gate(g, c) for an arbitrary gate g of type `t` of an arbitrary WF circuit c."""

    def __init__(self, tname):
        self.t = tname
        self.relpath, self.qualname = CONV, 'convert_gate'
        self.name = f'convert_gate/{tname}'

    def setup(self, it, ctx):
        c, h = CM.make_circuit(it, ctx, tag='c')
        Sx = h.S
        g = z3.Const('g', LabelSort)
        ctx.assume(Sx.dom(g))
        ctx.assume(Sx.typ(g) == GT[self.t])
        ctx.assume(arity_pre(Sx, g))
        # rank normal form (any DAG has such a rank): inputs have rank 0, other gates rank >= 1; inputs have no operands
        l = z3.Const('L!rk', LabelSort)
        ctx.assume(z3.ForAll([l], z3.And(Sx.rank(l) >= 0, z3.Implies(z3.And(Sx.dom(l), Sx.typ(l) == GT['INPUT']), z3.And(Sx.rank(l) == 0, Sx.nops(l) == 0)),
                                         z3.Implies(z3.And(Sx.dom(l), Sx.typ(l) != GT['INPUT']), Sx.rank(l) >= 1))))
        # link between the positional and the count view of g's operand tuple (concrete arity only)
        n_known = 2 if self.t in S.BINARY else (1 if self.t in S.UNARY else (0 if self.t == 'INPUT' else None))
        if n_known is not None:
            xq = z3.Const('X!lnk', LabelSort)
            ctx.assume(z3.ForAll([xq], Sx.opc(g, xq) == (z3.Sum([z3.If(Sx.op(g, z3.IntVal(j)) == xq, 1, 0) for j in range(n_known)]) if n_known else z3.IntVal(0))))
        gate_obj = CM.make_gate_obj(it, Sx, g)
        if self.t in S.CONST:
            # constants may carry operands (any arity): the loop that un-registers them is cut by the prefix-count view
            fn = {'ALWAYS_TRUE': '_convert_always_true', 'ALWAYS_FALSE': '_convert_always_false'}[self.t]
            it.loop_specs[(CONV + '::' + fn, 1)] = CM.UsersLoop(h, g, -1)
        return [gate_obj, c], {}, {'h': h, 'g': g, 'S0': Sx}

    def on_raise(self, it, ctx, exc, st):
        name = exc.cls.name if isinstance(exc, Obj) else repr(exc)
        S0 = st['S0']
        if self.t in S.CONST and name == 'GateDoesntExistError':
            # documented: constants need at least one input
            return [('raise-only-without-inputs', S0.in_n == 0, {'raised': name})]
        if name == 'CircuitValidationError':
            # uuid collision of the helper label with an existing gate: emplace_gate's own validation; state untouched so far
            return [('raise-leaves-state', z3.BoolVal(True), {'raised': name})]
        return [('no-raise', z3.BoolVal(False), {'raised': name, 'witness': 'raises-' + name})]

    def post(self, it, ctx, result, st):
        h, g, S0 = st['h'], st['g'], st['S0']
        S1 = h.S
        writes = [e for e in h.events if e[0] == 'gate-write']
        dels = [e for e in h.events if e[0] in ('gate-del',)]
        yield ('no-gate-deleted', z3.BoolVal(not dels))
        written = []
        for e in writes:
            if not any(e[1].eq(w) for w in written):
                written.append(e[1])
        fresh = [w for w in written if not ctx.feasible(S0.dom(w))]
        # ghost rank of the post-state
        def rank1(l):
            r = 2 * S0.rank(l)
            for w in fresh:
                n = resolve_int(ctx, S1.nops(w))
                if n is None:
                    raise Unsupported('helper gate of unknown arity')
                mx = z3.IntVal(0)
                for j in range(n):
                    rj = S0.rank(S1.op(w, z3.IntVal(j)))
                    mx = z3.If(rj > mx, rj, mx)
                r = z3.If(l == w, 2 * mx + 1, r)
            return r
        S1r = S1.copy()
        S1r.rank = rank1
        for nm, f in CM.wf_goals(ctx, S1r):
            yield ('WF/' + nm, f, {'witness': 'const-with-operands' if self.t in S.CONST else 'wf'})
        # the rank of the post-state is again in normal form; size grows by the number of helpers (used by the into_bench loop, c14_loop.py)
        lr = ctx.fresh(LabelSort, 'lrk')
        yield ('rank-normal-form-kept', z3.And(rank1(lr) >= 0, z3.Implies(z3.And(S1.dom(lr), S1.typ(lr) == GT['INPUT']), z3.And(rank1(lr) == 0, S1.nops(lr) == 0)),
                                               z3.Implies(z3.And(S1.dom(lr), S1.typ(lr) != GT['INPUT']), rank1(lr) >= 1)))
        yield ('size', S1.size == S0.size + len(fresh))
        yield ('blocks/same-generic-block', z3.And(S1.b_member == S0.b_member, S1.b_name == S0.b_name))
        # frame
        l = ctx.fresh(LabelSort, 'lfr')
        x = ctx.fresh(LabelSort, 'xfr')
        i = ctx.fresh(I, 'ifr')
        notw = z3.And([l != w for w in written]) if written else z3.BoolVal(True)
        yield ('frame/other-gates-unchanged', z3.Implies(notw, z3.And(S1.dom(l) == S0.dom(l), S1.typ(l) == S0.typ(l), S1.nops(l) == S0.nops(l),
                                                                      S1.op(l, i) == S0.op(l, i), S1.opc(l, x) == S0.opc(l, x))))
        yield ('frame/gates-only-added', z3.Implies(S0.dom(l), S1.dom(l)))
        yield ('frame/written-are-g-or-fresh', z3.BoolVal(all(w.eq(g) or any(w.eq(f) for f in fresh) for w in written)))
        yield ('frame/at-most-one-helper', z3.BoolVal(len(fresh) <= 1))
        yield ('frame/inputs-outputs-unchanged', z3.And(S1.in_n == S0.in_n, S1.out_n == S0.out_n, S1.in_elem(i) == S0.in_elem(i), S1.out_elem(i) == S0.out_elem(i),
                                                        S1.in_cnt(l) == S0.in_cnt(l), S1.out_cnt(l) == S0.out_cnt(l)))
        # bench types
        bench = lambda t: z3.Or([t == GT[b] for b in S.BENCH_TYPES])
        yield ('bench-type/g', bench(S1.typ(g)))
        for w in fresh:
            yield ('bench-type/helper', bench(S1.typ(w)))
        # local semantic equation: every valuation consistent with the new definitions of the written gates
        # satisfies the old equation of g
        V = z3.Function('V', LabelSort, z3.BoolSort())
        hyps = []
        for w in written:
            tn = resolve_type(ctx, S1.typ(w))
            n = resolve_int(ctx, S1.nops(w))
            if tn is None or n is None:
                raise Unsupported('written gate of unresolved type/arity')
            if tn == 'INPUT':
                continue
            if not S.arity_ok(tn, n):
                yield ('arity/written-gate', z3.BoolVal(False), {'witness': 'arity'})
                continue
            hyps.append(V(w) == theory.OPz(tn, [V(S1.op(w, z3.IntVal(j))) for j in range(n)]))
        if self.t in S.NARY or self.t in S.UNARY or self.t == 'INPUT':
            yield ('untouched', z3.BoolVal(len(written) == 0))
        else:
            n0 = 2 if self.t in S.BINARY else 0
            old = theory.OPz(self.t, [V(S0.op(g, z3.IntVal(j))) for j in range(n0)])
            yield ('local-equation', z3.Implies(z3.And(hyps) if hyps else z3.BoolVal(True), V(g) == old))
        # blocks: helper gate is in the generic block iff g was
        for w in fresh:
            yield ('blocks/helper-follows-g', z3.Implies(S1.b_member, (S1.bg(w) > 0) == (S0.bg(g) > 0)))
        yield ('blocks/others-unchanged', z3.Implies(z3.And([l != w for w in fresh]) if fresh else z3.BoolVal(True),
                                                     z3.And(S1.bg(l) == S0.bg(l), S1.bi(l) == S0.bi(l), S1.bo(l) == S0.bo(l), S1.b_member == S0.b_member)))

    def replay(self, values):
        kinds = ['two', 'same'] if self.t in S.BINARY or self.t in S.NARY else (['one'] if self.t in S.UNARY else ['none', 'two'])
        for k in kinds:
            ok, d = replay_into_bench(self.t, k)
            if not ok:
                return ok, d
        return True, 'into_bench on a one-gate circuit passes natively'


def run(rep):
    quick = env.TIER != 'thorough'
    rep.trusted_base = list(STD_TRUSTED) + [
        'proof rule R2 (DAG induction): a rewrite that only redefines one gate by an expression over old gates and fresh helpers with an equal value preserves den of every old gate',
        'rank normal form: every DAG has a rank with inputs at 0 and other gates >= 1']
    for a in STD_ASSUME:
        rep.assume(a)
    rep.assume('precondition ARITY (W6) on the converted gate; INPUT gates have no operands')
    rep.assume('into_bench: the loop over the snapshot of the gate map is proved by an invariant on an arbitrary circuit, with convert_gate used through its contract (the clauses proved per type above; '
               'congruence of the abstract equation predicate eq_S(l): it depends only on the definition of l; dict iteration enumerates every key once); '
               'the step from "new equations imply the original equations" to "same truth table" is rule R2')
    it = new_interp()
    pv = Prover(rep, it, 'C14')
    for t in S.GATE_TYPES:
        if t == 'INPUT':
            continue
        pv.run_contract(ConvertGate(t))
    # the loop of into_bench on an arbitrary circuit, convert_gate through its contract (c14_loop.py)
    from .c14_loop import IntoBench
    it.loop_specs.clear()
    it.contracts.clear()
    pv.run_contract(IntoBench())
    it.loop_specs.clear()
    it.contracts.clear()
    p, q = z3.Bools('p q')
    canary(rep, pv, 'C14/canary/gt-as-and-not-first', [], theory.OPz('GT', [p, q]) == z3.And(q, z3.Not(p)))
    refuted = pv.discharge(env.NPROC)
    finish_refuted(rep, pv, refuted)
    from .common import run_bounded
    run_bounded(rep, 'C14', quick)
    rep.extra['explanation'] = ('Every clause is generated by symbolic execution of the real convert_gate/_convert_*/emplace_gate/validation/_add_user/'
                                '_remove_user source on an arbitrary well-formed circuit (state as substitution over uninterpreted pre-state symbols); '
                                'into_bench itself is verified by a loop invariant against the contract of convert_gate.')

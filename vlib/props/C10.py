"""C10  Circuit composition computes the documented functional composition.

P: the five wrappers (connect_left, connect_right, connect_inputs, extend_circuit, add_circuit) are exactly the
   documented special cases of connect_circuit — for arbitrary circuits and arbitrary (possibly empty) connector
   sequences the call they make to connect_circuit carries the documented arguments (explicit empty lists are
   passed through, None is defaulted from the interface lists), and they return its result.
B: connect_circuit itself and all wrappers on enumerated pairs against the composition oracle (vlib/bounded/C10.py).
The 140-line connect_circuit has no deductive obligation in this build (string prefixes, two mappings, a generator
over the other circuit): its contract is the bounded layer's."""
import z3

from .. import env
from ..pyvc.values import Sym, LabelSort, Obj
from ..pyvc.prove import Prover, Contract
from ..pyvc import circuit_model as CM
from .common import new_interp, finish_refuted, canary, STD_TRUSTED, STD_ASSUME, run_bounded

LEVEL = 'other'
CIRC = 'cirbo/core/circuit/circuit.py'


def same_seq(it, ctx, got, want_kind, st):
    """`got` must be the documented sequence: identical object, or the interface list of the right circuit"""
    if want_kind[0] == 'arg':
        return z3.BoolVal(got is want_kind[1])
    h, w = want_kind[1], want_kind[2]
    return z3.BoolVal(isinstance(got, CM.LabelList) and got.h is h and got.w == w)


class Wrapper(Contract):
    relpath = CIRC

    def __init__(self, fn, variant=''):
        self.fn, self.variant = fn, variant
        self.qualname = 'Circuit.' + fn
        self.name = fn + ('/' + variant if variant else '')

    def setup(self, it, ctx):
        c, h = CM.make_circuit(it, ctx, tag='base')
        o, ho = CM.make_circuit(it, ctx, tag='other')
        calls = []
        sentinel = Obj(c.cls, {})

        def connect_circuit(it_, fv, args, kwargs):
            calls.append((list(args), dict(kwargs)))
            return sentinel
        it.contracts[CIRC + '::Circuit.connect_circuit'] = connect_circuit
        tc = CM.AbsLabelSeq(ctx, tag='tc')
        oc = CM.AbsLabelSeq(ctx, tag='oc')
        nm = Sym(z3.Const('blockname', LabelSort))
        ap = Sym(z3.Bool('add_prefix'))
        st = {'h': h, 'ho': ho, 'c': c, 'o': o, 'calls': calls, 'tc': tc, 'oc': oc, 'nm': nm, 'ap': ap, 'sentinel': sentinel}
        fn, v = self.fn, self.variant
        if fn == 'connect_left':
            args, kw = [c, o, tc], {'name': nm, 'add_prefix': ap}
            st['want'] = dict(this=('arg', tc), other=('iface', ho, 'in'), right=False)
        elif fn == 'connect_right':
            args, kw = [c, o, oc], {'name': nm, 'add_prefix': ap}
            st['want'] = dict(this=('iface', h, 'in'), other=('arg', oc), right=True)
        elif fn == 'connect_inputs':
            args, kw = [c, o], {'name': nm, 'add_prefix': ap}
            st['want'] = dict(this=('iface', h, 'in'), other=('iface', ho, 'in'), right=True)
        elif fn == 'add_circuit':
            args, kw = [c, o], {'name': nm, 'add_prefix': ap}
            st['want'] = dict(this=('empty',), other=('empty',), right=False)
        else:       # extend_circuit
            right = 'right' in v
            kw = {'name': nm, 'add_prefix': ap, 'right_connect': right}
            want = dict(right=right)
            if 'this-given' in v:
                kw['this_connectors'] = tc
                want['this'] = ('arg', tc)
            else:
                want['this'] = ('iface', h, 'in' if right else 'out')
            if 'other-given' in v:
                kw['other_connectors'] = oc
                want['other'] = ('arg', oc)
            else:
                want['other'] = ('iface', ho, 'out' if right else 'in')
            args = [c, o]
            st['want'] = want
        return args, kw, st

    def post(self, it, ctx, result, st):
        calls, want = st['calls'], st['want']
        yield ('exactly-one-connect_circuit-call', z3.BoolVal(len(calls) == 1))
        if len(calls) != 1:
            return
        a, kw = calls[0]
        names = ['self', 'other', 'this_connectors', 'other_connectors']
        got = dict(zip(names, a))
        got.update(kw)
        yield ('on-self-and-other', z3.BoolVal(got.get('self') is st['c'] and got.get('other') is st['o']))
        for side in ('this', 'other'):
            g = got.get(side + '_connectors')
            w = want[side]
            if w[0] == 'empty':
                ok = hasattr(g, 'items') and len(g.items) == 0 or (isinstance(g, (tuple, list)) and len(g) == 0)
                yield (f'{side}-connectors-empty', z3.BoolVal(bool(ok)))
            else:
                yield (f'{side}-connectors-documented', same_seq(it, ctx, g, w, st), {'witness': 'explicit-empty-connectors' if w[0] == 'arg' else 'defaulted-connectors'})
        rc = got.get('right_connect', False)
        yield ('direction', z3.BoolVal(rc is want['right']) if isinstance(rc, bool) else it.as_bool_term(it.eq(rc, want['right'])))
        yield ('name-and-prefix-forwarded', z3.BoolVal(got.get('name') is st['nm'] and got.get('add_prefix') is st['ap']))
        yield ('returns-result', z3.BoolVal(result is st['sentinel']))


def contracts():
    cs = [Wrapper('connect_left'), Wrapper('connect_right'), Wrapper('connect_inputs'), Wrapper('add_circuit')]
    for d in ('left', 'right'):
        for t in ('this-given', 'this-default'):
            for o in ('other-given', 'other-default'):
                cs.append(Wrapper('extend_circuit', f'{d}/{t}/{o}'))
    return cs


def run(rep):
    quick = env.TIER != 'thorough'
    rep.trusted_base = list(STD_TRUSTED)
    for a in STD_ASSUME:
        rep.assume(a)
    rep.assume('connect_circuit is proved in LEFT mode without a block name, for up to 2 connector pairs, on two arbitrary well-formed circuits, the attached one without blocks '
               '(c10_connect.py: top_sort of the attached circuit through its contract proved under C20, name map, filter / mapped / concatenated list views, set_inputs by the any-length proof of C02); '
               'ghost: a rank bound above all ranks of the base circuit (finite circuits); output / input ORDER of the parts taken from the attached circuit is stated through counts (the base part positionally)')
    rep.assume('right-connect mode (incl. the listed known finding), named blocks with prefixes, blocks of the attached circuit and more connector pairs are covered by the bounded stand-in only; '
               'its right-connection write is additionally covered by C02\'s bounded histories')
    it = new_interp()
    pv = Prover(rep, it, 'C10')
    for c in contracts():
        it.contracts.clear()
        pv.run_contract(c)
    # connect_circuit itself, left mode without a block name, on two arbitrary circuits (c10_connect.py)
    from .c10_connect import ConnectLeft
    for k in (0, 1, 2):
        it.loop_specs.clear()
        it.contracts.clear()
        pv.run_contract(ConnectLeft(k))
    it.loop_specs.clear()
    it.contracts.clear()
    it.filter_views = False
    if hasattr(it, 'concat_label_lists'):
        del it.concat_label_lists
    a = z3.Bool('a')
    canary(rep, pv, 'C10/canary/left-is-right', [], a == z3.Not(a))
    refuted = pv.discharge(env.NPROC)
    finish_refuted(rep, pv, refuted)
    run_bounded(rep, 'C10', quick)
    rep.extra['explanation'] = 'wrappers proved to be the documented special cases of connect_circuit (argument forwarding incl. explicit empty connector lists); connect_circuit proved in left mode without a block name on arbitrary circuits; the other modes: bounded stand-in against the composition oracle.'

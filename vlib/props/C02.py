"""C02  Circuits stay well formed under every history of public mutations.

Rule R5 (class invariant): every public mutator maps WF states to WF states at normal exit, hence WF
holds after every history. P: the users-index primitives against their contracts; _emplace_gate /
_add_gate / add_gate / emplace_gate for gates of ARBITRARY arity (prefix-count loop invariant),
remove_gate (incl. blocks), rename_gate (c19_rename.py), into_bench (c14_loop.py), mark_as_output, set_outputs, set_inputs, add_inputs,
order_inputs / order_outputs with utils.order_list (c02_order.py), delete_block — all on an arbitrary WF circuit.
B: histories of all public mutators incl. connect_circuit family, replace_subcircuit, copy (vlib/bounded/C02.py)."""
import z3

from .. import env
from ..pyvc.values import Sym, LabelSort, GTypeSort, GT, Obj, Unsupported, VList
from ..pyvc.prove import Prover, Contract
from ..pyvc import circuit_model as CM
from .common import new_interp, finish_refuted, canary, STD_TRUSTED, STD_ASSUME, run_bounded

LEVEL = 'other'
CIRC = 'cirbo/core/circuit/circuit.py'
I = z3.IntSort()


def state_eq(ctx, A, Bst, fields):
    """pointwise equality of two functional states on the listed components (skolem arguments)"""
    g, u = ctx.fresh(LabelSort, 'ge'), ctx.fresh(LabelSort, 'ue')
    i = ctx.fresh(I, 'ie')
    m = {'dom': lambda S: S.dom(g), 'typ': lambda S: S.typ(g), 'nops': lambda S: S.nops(g), 'op': lambda S: S.op(g, i), 'opc': lambda S: S.opc(g, u),
         'udom': lambda S: S.udom(g), 'cnt': lambda S: S.cnt(g, u), 'tot': lambda S: S.tot(g), 'in_n': lambda S: S.in_n, 'in_elem': lambda S: S.in_elem(i),
         'in_cnt': lambda S: S.in_cnt(g), 'out_n': lambda S: S.out_n, 'out_elem': lambda S: S.out_elem(i), 'out_cnt': lambda S: S.out_cnt(g),
         'b_member': lambda S: S.b_member, 'bg': lambda S: S.bg(g), 'bi': lambda S: S.bi(g), 'bo': lambda S: S.bo(g), 'size': lambda S: S.size}
    return z3.And([m[f](A) == m[f](Bst) for f in fields])


ALL = ['dom', 'typ', 'nops', 'op', 'opc', 'udom', 'cnt', 'tot', 'in_n', 'in_elem', 'in_cnt', 'out_n', 'out_elem', 'out_cnt', 'b_member', 'bg', 'bi', 'bo', 'size']
GATES = ['dom', 'typ', 'nops', 'op', 'opc', 'size']
USERS = ['udom', 'cnt', 'tot']
IO = ['in_n', 'in_elem', 'in_cnt', 'out_n', 'out_elem', 'out_cnt']
BLK = ['b_member', 'bg', 'bi', 'bo']


class CircuitContract(Contract):
    relpath = CIRC
    wf_pre = True

    def circuit(self, it, ctx):
        CM.install_user_contracts(it)
        CM.install_validation_loops(it)
        c, h = CM.make_circuit(it, ctx, tag='c', wf=self.wf_pre)
        l = z3.Const('L!rk', LabelSort)
        ctx.assume(z3.ForAll([l], h.S.rank(l) >= 0))
        return c, h

    def wf_post(self, it, ctx, h, rank=None, which=None):
        CM.sync_fields(it, h)
        S1 = h.S.copy()
        if rank is not None:
            S1.rank = rank
        for nm, f in CM.wf_goals(ctx, S1, which=which):
            yield ('WF/' + nm, f)

    def exc_name(self, exc):
        return exc.cls.name if isinstance(exc, Obj) else repr(exc)


class UserPrim(CircuitContract):
    """the body of _add_user / _remove_user satisfies the contract used at every call site"""
    wf_pre = False

    def __init__(self, which):
        self.which = which
        self.qualname = 'Circuit.' + which
        self.name = which + '/meets-contract'

    def setup(self, it, ctx):
        c, h = self.circuit(it, ctx)
        g, u = z3.Consts('g u', LabelSort)
        return [c, Sym(g), Sym(u)], {}, {'h': h, 'g': g, 'u': u, 'S0': h.S}

    def post(self, it, ctx, result, st):
        want = (CM.add_user_post if self.which == '_add_user' else CM.remove_user_post)(st['S0'], st['g'], st['u'])
        yield ('users-index', state_eq(ctx, st['h'].S, want, USERS))
        yield ('frame', state_eq(ctx, st['h'].S, st['S0'], GATES + IO + BLK))


class AddGateLike(CircuitContract):
    """_emplace_gate / _add_gate / emplace_gate / add_gate with a gate of arbitrary type and arbitrary arity"""

    def __init__(self, fn, public):
        self.fn, self.public = fn, public
        self.qualname = 'Circuit.' + fn
        self.name = fn + '/arbitrary-arity'

    def setup(self, it, ctx):
        c, h = self.circuit(it, ctx)
        S0 = h.S
        lab = z3.Const('lab', LabelSort)
        ty = z3.Const('ty', GTypeSort)
        ops = CM.AbsLabelSeq(ctx, tag='ops')
        if not self.public:          # private forms: the caller has validated
            i = z3.Int('i!pre')
            ctx.assume(z3.Not(S0.dom(lab)))
            ctx.assume(z3.ForAll([i], z3.Implies(z3.And(i >= 0, i < ops.n), S0.dom(ops.elem(i)))))
        key = (CIRC + '::Circuit.' + ('_emplace_gate' if 'emplace' in self.fn else '_add_gate'), 1)
        it.loop_specs[key] = CM.UsersLoop(h, lab, +1)
        opsv = CM.as_ops(ops)
        if 'emplace' in self.fn:
            args = [c, Sym(lab), Sym(ty), opsv]
        else:
            gm = it.load_module('cirbo.core.circuit.gate')
            args = [c, Obj(gm.env['Gate'], {'_label': Sym(lab), '_gate_type': Sym(ty), '_operands': opsv})]
        return args, {}, {'h': h, 'S0': S0, 'lab': lab, 'ty': ty, 'ops': ops}

    def post(self, it, ctx, result, st):
        h, S0, lab, ty, ops = st['h'], st['S0'], st['lab'], st['ty'], st['ops']
        # ghost rank: the new gate above all its operands
        R = ctx.fresh(I, 'R')
        i = z3.Int('i!rk')
        ctx.assume(z3.ForAll([i], z3.Implies(z3.And(i >= 0, i < ops.n), R > S0.rank(ops.elem(i)))))
        rank = lambda l: z3.If(l == lab, R, S0.rank(l))
        yield from self.wf_post(it, ctx, h, rank=rank)
        S1 = h.S
        yield ('gate-stored', z3.And(S1.dom(lab), S1.typ(lab) == ty, S1.nops(lab) == ops.n))
        l = ctx.fresh(LabelSort, 'lf')
        x = ctx.fresh(LabelSort, 'xf')
        j = ctx.fresh(I, 'jf')
        yield ('frame/other-gates', z3.Implies(l != lab, z3.And(S1.dom(l) == S0.dom(l), S1.typ(l) == S0.typ(l), S1.nops(l) == S0.nops(l), S1.op(l, j) == S0.op(l, j), S1.opc(l, x) == S0.opc(l, x))))
        yield ('frame/outputs-blocks', state_eq(ctx, S1, S0, ['out_n', 'out_elem', 'out_cnt'] + BLK))
        if self.public:
            yield ('validated/label-was-fresh', z3.Not(S0.dom(lab)))

    def on_raise(self, it, ctx, exc, st):
        n = self.exc_name(exc)
        if self.public and n == 'CircuitValidationError':
            S0, lab, ops = st['S0'], st['lab'], st['ops']
            i = z3.Int('i!ex')
            # raised only if the label exists or some operand is missing; nothing was mutated
            yield ('raise/only-when-invalid', z3.Or(S0.dom(lab), z3.Exists([i], z3.And(i >= 0, i < ops.n, z3.Not(S0.dom(ops.elem(i)))))), {'raised': n})
            yield ('raise/state-untouched', state_eq(ctx, st['h'].S, S0, ALL))
        else:
            yield ('no-raise', z3.BoolVal(False), {'raised': n, 'witness': 'raises-' + n})


class RemoveGate(CircuitContract):
    qualname = 'Circuit.remove_gate'
    name = 'remove_gate'

    def setup(self, it, ctx):
        c, h = self.circuit(it, ctx)
        S0 = h.S
        lab = z3.Const('lab', LabelSort)
        it.loop_specs[(CIRC + '::Circuit._remove_gate', 1)] = CM.UsersLoop(h, lab, -1)
        # link of the two operand views of the removed gate (representation fact of its tuple) is supplied by UsersLoop
        return [c, Sym(lab)], {}, {'h': h, 'S0': S0, 'lab': lab}

    def post(self, it, ctx, result, st):
        h, S0, lab = st['h'], st['S0'], st['lab']
        yield from self.wf_post(it, ctx, h, rank=S0.rank)
        S1 = h.S
        yield ('removed', z3.And(z3.Not(S1.dom(lab)), S1.out_cnt(lab) == 0, S1.in_cnt(lab) == 0))
        yield ('only-unused-gates', z3.And(S0.dom(lab), S0.tot(lab) == 0))
        l = ctx.fresh(LabelSort, 'lf')
        x = ctx.fresh(LabelSort, 'xf')
        j = ctx.fresh(I, 'jf')
        yield ('frame/other-gates', z3.Implies(l != lab, z3.And(S1.dom(l) == S0.dom(l), S1.typ(l) == S0.typ(l), S1.nops(l) == S0.nops(l), S1.op(l, j) == S0.op(l, j), S1.opc(l, x) == S0.opc(l, x))))

    def on_raise(self, it, ctx, exc, st):
        n = self.exc_name(exc)
        S0, lab = st['S0'], st['lab']
        if n == 'CircuitValidationError':
            yield ('raise/absent-gate', z3.Not(S0.dom(lab)), {'raised': n})
            yield ('raise/state-untouched', state_eq(ctx, st['h'].S, S0, ALL))
        elif n == 'GateHasUsersError':
            yield ('raise/gate-has-users', z3.And(S0.dom(lab), S0.tot(lab) > 0), {'raised': n})
            yield ('raise/state-untouched', state_eq(ctx, st['h'].S, S0, ALL))
        else:
            yield ('no-raise', z3.BoolVal(False), {'raised': n, 'witness': 'raises-' + n})


class MarkAsOutput(CircuitContract):
    qualname = 'Circuit.mark_as_output'
    name = 'mark_as_output'

    def setup(self, it, ctx):
        c, h = self.circuit(it, ctx)
        lab = z3.Const('lab', LabelSort)
        return [c, Sym(lab)], {}, {'h': h, 'S0': h.S, 'lab': lab}

    def post(self, it, ctx, result, st):
        h, S0, lab = st['h'], st['S0'], st['lab']
        yield from self.wf_post(it, ctx, h, rank=S0.rank)
        S1 = h.S
        l = ctx.fresh(LabelSort, 'lf')
        yield ('appended', z3.And(S1.out_n == S0.out_n + 1, S1.out_elem(S0.out_n) == lab, S1.out_cnt(l) == S0.out_cnt(l) + z3.If(l == lab, 1, 0)))
        yield ('frame', state_eq(ctx, S1, S0, GATES + USERS + ['in_n', 'in_elem', 'in_cnt'] + BLK))

    def on_raise(self, it, ctx, exc, st):
        n = self.exc_name(exc)
        if n == 'CircuitValidationError':
            yield ('raise/absent-gate', z3.Not(st['S0'].dom(st['lab'])), {'raised': n})
            yield ('raise/state-untouched', state_eq(ctx, st['h'].S, st['S0'], ALL))
        else:
            yield ('no-raise', z3.BoolVal(False), {'raised': n, 'witness': 'raises-' + n})


class SetOutputs(CircuitContract):
    qualname = 'Circuit.set_outputs'
    name = 'set_outputs'

    def setup(self, it, ctx):
        c, h = self.circuit(it, ctx)
        seq = CM.AbsLabelSeq(ctx, tag='outs')
        return [c, seq], {}, {'h': h, 'S0': h.S, 'seq': seq}

    def post(self, it, ctx, result, st):
        h, S0, seq = st['h'], st['S0'], st['seq']
        yield from self.wf_post(it, ctx, h, rank=S0.rank)
        S1 = h.S
        l = ctx.fresh(LabelSort, 'lf')
        i = ctx.fresh(I, 'if')
        yield ('outputs-are-argument', z3.And(S1.out_n == seq.n, S1.out_elem(i) == seq.elem(i), S1.out_cnt(l) == seq.count(l)))
        yield ('frame', state_eq(ctx, S1, S0, GATES + USERS + ['in_n', 'in_elem', 'in_cnt'] + BLK))

    def on_raise(self, it, ctx, exc, st):
        n = self.exc_name(exc)
        if n == 'CircuitValidationError':
            seq, S0 = st['seq'], st['S0']
            i = z3.Int('i!ex')
            yield ('raise/some-label-absent', z3.Exists([i], z3.And(i >= 0, i < seq.n, z3.Not(S0.dom(seq.elem(i))))), {'raised': n})
            yield ('raise/state-untouched', state_eq(ctx, st['h'].S, S0, ALL))
        else:
            yield ('no-raise', z3.BoolVal(False), {'raised': n, 'witness': 'raises-' + n})


class DeleteBlock(CircuitContract):
    qualname = 'Circuit.delete_block'
    name = 'delete_block'

    def setup(self, it, ctx):
        c, h = self.circuit(it, ctx)
        nm = z3.Const('bname', LabelSort)
        return [c, Sym(nm)], {}, {'h': h, 'S0': h.S, 'nm': nm}

    def post(self, it, ctx, result, st):
        h, S0 = st['h'], st['S0']
        yield from self.wf_post(it, ctx, h, rank=S0.rank)
        yield ('frame', state_eq(ctx, h.S, S0, GATES + USERS + IO))

    def on_raise(self, it, ctx, exc, st):
        n = self.exc_name(exc)
        if n == 'KeyError':
            yield ('raise/state-untouched', state_eq(ctx, st['h'].S, st['S0'], ALL), {'raised': n})
        else:
            yield ('no-raise', z3.BoolVal(False), {'raised': n, 'witness': 'raises-' + n})


class AllGatesLoop:
    """for cur_gate in self.gates.values(): if cur_gate.gate_type == INPUT and cur_gate.label not in inputs: raise …
    (no state change; the gates enumerated so far that are inputs are among the requested labels)"""

    def __init__(self, h, items, listed=None):
        self.h, self.items = h, items
        self.listed = listed or (lambda x: z3.Or([x == y for y in items]) if items else z3.BoolVal(False))

    def applies(self, it, env, iterable):
        if isinstance(iterable, CM.GateValues):
            self.y = iterable.enumeration(it)[0]
            return True
        return False

    def havoc(self, it, env):
        pass

    def inv(self, it, env, k):
        S0 = self.h.S
        i = z3.Int('i!ag')
        y = self.y
        return [('enumerated-inputs-are-requested',
                 z3.ForAll([i], z3.Implies(z3.And(i >= 0, i < k, S0.typ(y(i)) == GT['INPUT']), self.listed(y(i)))))]


class SetInputs(CircuitContract):
    """set_inputs(inputs) for a list of k <= 3 labels on an arbitrary WF circuit: succeeds exactly when the labels are
    pairwise distinct and are exactly the INPUT gates of the circuit; then the input list is the argument"""
    qualname = 'Circuit.set_inputs'

    def __init__(self, k):
        self.k = k
        self.name = f'set_inputs/{k}labels'

    def setup(self, it, ctx):
        c, h = self.circuit(it, ctx)
        items = [z3.Const(f'in{i}', LabelSort) for i in range(self.k)]
        it.loop_specs[(CIRC + '::Circuit.set_inputs', 1)] = AllGatesLoop(h, items)
        return [c, VList([Sym(x) for x in items])], {}, {'h': h, 'S0': h.S, 'items': items}

    def valid(self, S0, items):
        l = z3.Const('l!si', LabelSort)
        listed = lambda x: z3.Or([x == y for y in items]) if items else z3.BoolVal(False)
        return z3.And([z3.And(S0.dom(x), S0.typ(x) == GT['INPUT']) for x in items] + ([z3.Distinct(*items)] if len(items) > 1 else []) +
                      [z3.ForAll([l], z3.Implies(z3.And(S0.dom(l), S0.typ(l) == GT['INPUT']), listed(l)))])

    def post(self, it, ctx, result, st):
        h, S0, items = st['h'], st['S0'], st['items']
        yield from self.wf_post(it, ctx, h, rank=S0.rank)
        S1 = h.S
        yield ('accepted-only-valid-requests', self.valid(S0, items))
        yield ('inputs-are-the-argument', z3.And([S1.in_n == len(items)] + [S1.in_elem(z3.IntVal(j)) == x for j, x in enumerate(items)]))
        yield ('frame', state_eq(ctx, S1, S0, GATES + USERS + ['out_n', 'out_elem', 'out_cnt'] + BLK))

    def on_raise(self, it, ctx, exc, st):
        n = self.exc_name(exc)
        if n == 'CircuitValidationError':
            yield ('raise/only-invalid-requests', z3.Not(self.valid(st['S0'], st['items'])), {'raised': n})
            yield ('raise/state-untouched', state_eq(ctx, st['h'].S, st['S0'], ALL))
        else:
            yield ('no-raise', z3.BoolVal(False), {'raised': n, 'witness': 'raises-' + n})


class AddInputs(CircuitContract):
    """add_inputs(labels) for k <= 2 labels: succeeds exactly when the labels are new and pairwise distinct; each becomes
    an INPUT gate without operands, appended to the input list in order; nothing else changes"""
    qualname = 'Circuit.add_inputs'

    def __init__(self, k):
        self.k = k
        self.name = f'add_inputs/{k}labels'

    def setup(self, it, ctx):
        c, h = self.circuit(it, ctx)
        items = [z3.Const(f'new{i}', LabelSort) for i in range(self.k)]
        return [c, VList([Sym(x) for x in items])], {}, {'h': h, 'S0': h.S, 'items': items}

    def post(self, it, ctx, result, st):
        h, S0, items = st['h'], st['S0'], st['items']
        yield from self.wf_post(it, ctx, h, rank=lambda l: z3.If(z3.Or([l == x for x in items]) if items else z3.BoolVal(False), 0, S0.rank(l)))
        S1 = h.S
        yield ('accepted-only-new-distinct-labels', z3.And([z3.Not(S0.dom(x)) for x in items] + ([z3.Distinct(*items)] if len(items) > 1 else [])))
        for j, x in enumerate(items):
            yield (f'label{j}-is-an-input', z3.And(S1.dom(x), S1.typ(x) == GT['INPUT'], S1.nops(x) == 0, S1.in_elem(S0.in_n + j) == x))
        l, y = ctx.fresh(LabelSort, 'lf'), ctx.fresh(LabelSort, 'yf')
        j = ctx.fresh(I, 'jf')
        other = z3.And([l != x for x in items]) if items else z3.BoolVal(True)
        yield ('inputs-extended', z3.And(S1.in_n == S0.in_n + len(items), z3.Implies(z3.And(j >= 0, j < S0.in_n), S1.in_elem(j) == S0.in_elem(j))))
        yield ('frame/other-gates', z3.Implies(other, z3.And(S1.dom(l) == S0.dom(l), S1.typ(l) == S0.typ(l), S1.nops(l) == S0.nops(l), S1.op(l, j) == S0.op(l, j), S1.opc(l, y) == S0.opc(l, y))))
        yield ('frame/outputs-blocks', state_eq(ctx, S1, S0, ['out_n', 'out_elem', 'out_cnt'] + BLK))

    def on_raise(self, it, ctx, exc, st):
        n = self.exc_name(exc)
        items, S0 = st['items'], st['S0']
        if n == 'CircuitValidationError':
            dup = z3.Or([items[a] == items[b] for a in range(len(items)) for b in range(a + 1, len(items))]) if len(items) > 1 else z3.BoolVal(False)
            yield ('raise/some-label-exists-or-is-repeated', z3.Or(dup, z3.Or([S0.dom(x) for x in items]) if items else z3.BoolVal(False)), {'raised': n})
        else:
            yield ('no-raise', z3.BoolVal(False), {'raised': n, 'witness': 'raises-' + n})


class MakeBlock(CircuitContract):
    """make_block(name, gates, outputs, inputs) with explicitly given lists (each of <= 2 arbitrary labels): accepted exactly
    when the name is free and every listed label is a gate; the new block names existing gates only (W7), nothing else changes"""
    qualname = 'Circuit.make_block'

    def __init__(self, kg, ko, ki):
        self.k = (kg, ko, ki)
        self.name = f'make_block/{kg}gates+{ko}outputs+{ki}inputs'

    def setup(self, it, ctx):
        c, h = self.circuit(it, ctx)
        nm = z3.Const('bname', LabelSort)
        lists = [[z3.Const(f'{w}{i}', LabelSort) for i in range(k)] for w, k in zip(('mg', 'mo', 'mi'), self.k)]
        vl = [VList([Sym(x) for x in l]) for l in lists]
        return [c, Sym(nm), vl[0], vl[1], vl[2]], {}, {'h': h, 'S0': h.S, 'nm': nm, 'lists': lists}

    def post(self, it, ctx, result, st):
        h, S0 = st['h'], st['S0']
        yield from self.wf_post(it, ctx, h, rank=S0.rank)
        S1 = h.S
        allx = [x for l in st['lists'] for x in l]
        yield ('accepted-only-existing-gates', z3.And([S0.dom(x) for x in allx]) if allx else z3.BoolVal(True))
        yield ('frame', state_eq(ctx, S1, S0, GATES + USERS + IO))
        yield ('returns-the-block', z3.BoolVal(isinstance(result, Obj) and result.cls.name == 'Block'))

    def on_raise(self, it, ctx, exc, st):
        n = self.exc_name(exc)
        if n == 'CircuitValidationError':
            allx = [x for l in st['lists'] for x in l]
            S0, h = st['S0'], st['h']
            name_taken = z3.Or(z3.And(S0.b_member, S0.b_name == st['nm']), h.other_block(st['nm']))
            yield ('raise/name-taken-or-label-absent', z3.Or([name_taken] + [z3.Not(S0.dom(x)) for x in allx]), {'raised': n})
            yield ('raise/state-untouched', state_eq(ctx, st['h'].S, S0, ALL))
        else:
            yield ('no-raise', z3.BoolVal(False), {'raised': n, 'witness': 'raises-' + n})


def contracts():
    from .c19_rename import RenameGate
    from .c14_loop import IntoBench
    from .c02_order import OrderList, OrderInOut, SetInputsAny
    from .c02_copy import Copy
    deep = env.TIER == 'thorough'
    order = [OrderList(k) for k in ((0, 1, 2, 3, 4) if deep else (0, 1, 2, 3))] + [OrderInOut(w, k) for w in ('in', 'out') for k in ((0, 1, 2, 3) if deep else (0, 1, 2))]
    return order + [SetInputsAny(), Copy(), RenameGate(), IntoBench(), UserPrim('_add_user'), UserPrim('_remove_user'),
            AddGateLike('_emplace_gate', False), AddGateLike('_add_gate', False), AddGateLike('emplace_gate', True), AddGateLike('add_gate', True),
            RemoveGate(), MarkAsOutput(), SetOutputs(), DeleteBlock(), MakeBlock(0, 0, 0), MakeBlock(1, 1, 1), MakeBlock(2, 1, 2)] + [SetInputs(k) for k in ((0, 1, 2, 3, 4) if env.TIER == 'thorough' else (0, 1, 2, 3))] + [AddInputs(k) for k in ((0, 1, 2, 3) if env.TIER == 'thorough' else (0, 1, 2))]



def run(rep):
    quick = env.TIER != 'thorough'
    rep.trusted_base = list(STD_TRUSTED) + ['abstract circuit model vlib/pyvc/circuit_model.py (python dict/list semantics of the five Circuit fields as count/positional views)',
                                            'rule R5: an invariant established by every public mutator at normal exit holds after every history of such calls',
                                            'background lemmas on tuples: count view = full prefix count; prefix counts are monotone']
    for a in STD_ASSUME:
        rep.assume(a)
    rep.assume('P covers _add_user, _remove_user, _emplace_gate, _add_gate, emplace_gate, add_gate, remove_gate/_remove_gate, rename_gate, into_bench, mark_as_output, set_outputs, set_inputs (lists of any length, and again <=3 labels with exact raise conditions), add_inputs (<=2 labels), copy.copy / __copy__ (any circuit, c02_copy.py), order_inputs/order_outputs (utils.order_list, requested prefix <=3, lists of any length), make_block with given lists (<=2 labels each), delete_block; '
               'the remaining mutators (replace_inputs [C19], make_block with collected inputs, make_block_from_slice, connect_circuit family, replace_subcircuit, remove_block) are bounded-only here '
               '(into_bench: loop proved here against the contract of convert_gate, whose clauses are discharged per gate type under C14)')
    it = new_interp()
    pv = Prover(rep, it, 'C02')
    for c in contracts():
        it.loop_specs.clear()
        it.contracts.clear()
        pv.run_contract(c)
    g, u = z3.Consts('g u', LabelSort)
    f = z3.Function('cnt0', LabelSort, LabelSort, z3.IntSort())
    canary(rep, pv, 'C02/canary/append-keeps-count', [], z3.If(z3.And(g == g, u == u), f(g, u) + 1, f(g, u)) == f(g, u))
    refuted = pv.discharge(env.NPROC)
    finish_refuted(rep, pv, refuted)
    run_bounded(rep, 'C02', quick)
    rep.extra['explanation'] = ('Class-invariant rule: each listed mutator is symbolically executed from the real source on an arbitrary well-formed circuit (arbitrary gate arity) '
                                'and every WF clause of the post-state is discharged; histories over all public mutators are exercised by the bounded stand-in.')

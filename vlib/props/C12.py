"""C12  All function representations answer every protocol query alike and correctly.

P: the canonical-index helpers every representation is built on — input_to_canonical_index is the big-endian
   value of the input bits (0..5 inputs, all values) and get_bit_value(v, i, n) is bit n-1-i of v (all v, i, n);
   TruthTable.is_constant_at / is_monotone_at scan loops against their definitions (see queries below).
B: every protocol query of the three representations against reference definitions, exhaustively for small
   functions (vlib/bounded/C12.py)."""
import z3

from .. import env
from ..pyvc.values import Sym, VList, Obj
from ..pyvc.prove import Prover, Contract
from ..pyvc.lib import Pow2
from .common import new_interp, finish_refuted, canary, STD_TRUSTED, STD_ASSUME, run_bounded

LEVEL = 'other'
UT = 'cirbo/core/utils.py'


class CanonIndex(Contract):
    relpath, qualname = UT, 'input_to_canonical_index'

    def __init__(self, n):
        self.n = n
        self.name = f'input_to_canonical_index/n{n}'

    def setup(self, it, ctx):
        bs = [z3.Bool(f'v{i}') for i in range(self.n)]
        return [VList([Sym(b) for b in bs])], {}, {'bs': bs}

    def post(self, it, ctx, result, st):
        n = self.n
        want = z3.Sum([z3.If(b, 2 ** (n - 1 - i), 0) for i, b in enumerate(st['bs'])]) if n else z3.IntVal(0)
        yield ('big-endian-value', it.int_term(result) == want)

    def inputs(self, st):
        return {'bits': st['bs']}

    def replay(self, values):
        import importlib
        u = importlib.import_module('cirbo.core.utils')
        bits = values.get('bits', [True, False, True][:self.n])
        got = u.input_to_canonical_index(bits)
        want = sum((1 << (len(bits) - 1 - i)) for i, b in enumerate(bits) if b)
        return got == want, f'input_to_canonical_index({bits}) = {got}, expected {want}'


class BitValue(Contract):
    relpath, qualname, name = UT, 'get_bit_value', 'get_bit_value'

    def setup(self, it, ctx):
        v, i, n = z3.Ints('value bit_idx bit_size')
        ctx.assume(z3.And(v >= 0, i >= 0, i < n))
        return [Sym(v), Sym(i), Sym(n)], {}, {'v': v, 'i': i, 'n': n}

    def post(self, it, ctx, result, st):
        t = it.truth(result)
        t = z3.BoolVal(t) if isinstance(t, bool) else t
        v, i, n = st['v'], st['i'], st['n']
        yield ('is-bit-n-1-i', t == ((v / Pow2(n - i - 1)) % 2 == 1))

    def background(self, it):
        from ..pyvc.lib import pow2_axioms
        return pow2_axioms([])


def run(rep):
    quick = env.TIER != 'thorough'
    rep.trusted_base = list(STD_TRUSTED) + ['model of str/int on digit strings (vlib/pyvc/lib.py DigitString)', 'background lemmas: (2^s * t) >> s = t;  x & 2^s = 2^s * ((x div 2^s) mod 2)']
    for a in STD_ASSUME:
        rep.assume(a)
    rep.assume('the protocol queries of TruthTable and PyFunction are proved on a symbolic truth table for the shapes (n inputs, m outputs) in {(1,1), (2,1), (2,2)} (and (3,1) in the thorough tier): all functions of these shapes; larger shapes, the queries of Circuit beyond the one-gate circuits ty(x0, x1) with a symbolic gate type (which are proved), model completion and integer wrappers have no deductive obligation (bounded stand-in: exhaustive for n<=2, m<=2 quick; n<=3 thorough)')
    it = new_interp()
    pv = Prover(rep, it, 'C12')
    for n in range(0, 6):
        pv.run_contract(CanonIndex(n))
    pv.run_contract(BitValue())
    # protocol queries of the truth-table and the callable representation for every function of a small shape (symbolic table)
    from . import c12_queries
    for c in c12_queries.contracts(not quick):
        pv.run_contract(c)
    a, b = z3.Bools('a b')
    canary(rep, pv, 'C12/canary/little-endian', [], z3.If(a, 2, 0) + z3.If(b, 1, 0) == z3.If(a, 1, 0) + z3.If(b, 2, 0))
    refuted = pv.discharge(env.NPROC)
    finish_refuted(rep, pv, refuted)
    run_bounded(rep, 'C12', quick)
    rep.extra['explanation'] = 'index helpers proved from the real source for all values; the protocol queries of TruthTable / PyFunction proved for every function of a small shape (symbolic table); Circuit representation and larger shapes: bounded stand-in.'

"""C19  Circuit.rename_gate on an ARBITRARY well-formed circuit (arbitrary arity, arbitrary number of users,
outputs listed any number of times, optional block): every reference follows the rename.

With rho(l) = new if l == old else l the post-state is the rho-image of the pre-state:
  gates'   = { rho(l) : l in gates },   type, arity kept,  operands'(rho l)[i] = rho(operands(l)[i])
  users'(rho g) counts rho(u) exactly as users(g) counted u;  inputs'[i] = rho(inputs[i]);  outputs'[i] = rho(outputs[i])
  block lists: every occurrence of old became new;  WF kept (rank'(new) = rank(old)).
Raises exactly CircuitGateIsAbsentError (old absent) / CircuitGateAlreadyExistsError (old present, new present),
leaving the state untouched.

Loops (rule R1, closed-form state per iteration):
  loop 1  for idx in all_indexes_of_output(old): outputs[idx] = new          (positions enumeration pos/inv)
  loop 2  for user in users[old]: gates[user] = Gate(user, type, subst)      (prefix membership pm(k, u))
  loop 3  for operand in gates[old].operands: users[operand][index(old)] = new  (prefix count pc(k, g))
Block._rename_gate is used by its summary at the call site and verified separately on lists of length <= 3."""
import z3

from ..pyvc.values import Sym, LabelSort, GT, Obj, VList
from ..pyvc import circuit_model as CM
from .C02 import CircuitContract, state_eq, ALL, USERS, BLK, GATES, IO, CIRC

I = z3.IntSort()
KEY = CIRC + '::Circuit.rename_gate'
_N = [0]


def lemma(ctx, name, vars_, body):
    """ghost lemma: proved on this path for arbitrary (skolem) instances, then available universally"""
    sk = [ctx.fresh(v.sort(), 'lm') for v in vars_]
    ctx.check('lemma/' + name, z3.substitute(body, *zip(vars_, sk)) if vars_ else body)
    ctx.assume(z3.ForAll(vars_, body) if vars_ else body)


class ClosedLoop:
    """closed-form loop spec: closed(k) is the whole circuit state before iteration k"""
    fields = ALL

    def __init__(self, h):
        self.h = h
        self.base = None

    def applies(self, it, env, iterable):
        return True

    def _setup(self, it, env, iterable=None):
        if self.base is None:
            self.base = self.h.S
            _N[0] += 1
            self.setup(it, env)

    def inv(self, it, env, k):
        self._setup(it, env)
        cur, want = self.h.S, self.closed(k)
        ctx = it.ctx
        g, u = ctx.fresh(LabelSort, 'Gl'), ctx.fresh(LabelSort, 'Ul')
        i = ctx.fresh(I, 'il')
        m = {'dom': lambda S: S.dom(g), 'typ': lambda S: S.typ(g), 'nops': lambda S: S.nops(g), 'op': lambda S: S.op(g, i), 'opc': lambda S: S.opc(g, u),
             'udom': lambda S: S.udom(g), 'cnt': lambda S: S.cnt(g, u), 'tot': lambda S: S.tot(g), 'in_n': lambda S: S.in_n, 'in_elem': lambda S: S.in_elem(i),
             'in_cnt': lambda S: S.in_cnt(g), 'out_n': lambda S: S.out_n, 'out_elem': lambda S: S.out_elem(i), 'out_cnt': lambda S: S.out_cnt(g),
             'b_member': lambda S: S.b_member, 'bg': lambda S: S.bg(g), 'bi': lambda S: S.bi(g), 'bo': lambda S: S.bo(g), 'size': lambda S: S.size,
             'uelem': lambda S: S.uelem(g, i)}
        return [(f, m[f](cur) == m[f](want)) for f in self.fields]

    def install(self, it, env, k):
        self._setup(it, env)
        self.h.S = self.closed(k)


class OutputsLoop(ClosedLoop):
    """loop 1: after k iterations the first k listed positions of old hold new"""

    def setup(self, it, env):
        self.old, self.new = it.label_term(env['old_label']), it.label_term(env['new_label'])

    def applies(self, it, env, iterable):
        self.seq = iterable
        return getattr(iterable, 'positions_of', None) is not None

    def closed(self, k):
        lst, xt, pos, inv, (n, elem, cnt) = self.seq.positions_of
        base, old, new = self.base, self.old, self.new
        S = base.copy()
        S.out_elem = lambda i: z3.If(z3.And(i >= 0, i < n, elem(i) == xt, inv(i) < k), new, elem(i))
        S.out_cnt = lambda l: cnt(l) - z3.If(l == xt, k, 0) + z3.If(l == new, k, 0)
        return S


class UsersOfOldLoop(ClosedLoop):
    """loop 2: the users met so far have old replaced by new in their operand tuples"""

    def setup(self, it, env):
        self.old, self.new = it.label_term(env['old_label']), it.label_term(env['new_label'])
        base, old = self.base, self.old
        pm = z3.Function(f'pm!{_N[0]}', I, LabelSort, z3.BoolSort())
        self.pm = pm
        k, u = z3.Int('k!pm'), z3.Const('u!pm', LabelSort)
        n = base.tot(old)
        ctx = it.ctx
        ctx.assume(z3.ForAll([u], z3.Not(pm(0, u))))
        ctx.assume(z3.ForAll([k, u], z3.Implies(z3.And(k >= 0, k < n), pm(k + 1, u) == z3.Or(pm(k, u), base.uelem(old, k) == u)), patterns=[pm(k + 1, u)]))
        # representation fact of lists: x occurs at some position  <=>  count(x) > 0
        ctx.assume(z3.ForAll([u], pm(n, u) == (base.cnt(old, u) > 0)))

    def closed(self, k):
        base, old, new, pm = self.base, self.old, self.new, self.pm
        S = base.copy()
        S.op = lambda u, i: z3.If(z3.And(pm(k, u), base.op(u, i) == old), new, base.op(u, i))
        S.opc = lambda u, g: z3.If(pm(k, u), z3.If(g == new, base.opc(u, new) + base.opc(u, old), z3.If(g == old, 0, base.opc(u, g))), base.opc(u, g))
        return S


class OperandsOfOldLoop(ClosedLoop):
    """loop 3: in the users lists of the first k operands one occurrence of old per operand occurrence became new"""

    def applies(self, it, env, iterable):
        self.ops = iterable
        return isinstance(iterable, CM.OpsSeq) and iterable.concrete_len(it) is None

    def setup(self, it, env):
        self.old, self.new = it.label_term(env['old_label']), it.label_term(env['new_label'])
        ops = self.ops
        pc = z3.Function(f'pc!r{_N[0]}', I, LabelSort, I)
        self.pc = pc
        k, x = z3.Int('k!pc'), z3.Const('x!pc', LabelSort)
        n = ops.n
        ctx = it.ctx
        ctx.assume(z3.ForAll([x], pc(0, x) == 0))
        ctx.assume(z3.ForAll([k, x], z3.Implies(z3.And(k >= 0, k < n), pc(k + 1, x) == pc(k, x) + z3.If(ops.elem(k) == x, 1, 0)), patterns=[pc(k + 1, x)]))
        ctx.assume(z3.ForAll([x], pc(n, x) == ops.count(x)))
        ctx.assume(z3.ForAll([k, x], z3.Implies(z3.And(k >= 0, k <= n), z3.And(pc(k, x) >= 0, pc(k, x) <= ops.count(x))), patterns=[pc(k, x)]))
        # ghost lemmas about the state reached after loop 2 (each is an obligation of this path, then usable below)
        S0, base, old, new = self.S0, self.base, self.old, self.new
        i, g = z3.Int('i!l3'), z3.Const('g!l3', LabelSort)
        lemma(ctx, 'old-does-not-use-itself', [], z3.And(S0.opc(old, old) == 0, S0.cnt(old, old) == 0))
        lemma(ctx, 'old-operands-untouched-by-loop2', [g, i], z3.And(ops.count(g) == S0.opc(old, g), ops.n == S0.nops(old), ops.elem(i) == S0.op(old, i)))
        lemma(ctx, 'operands-of-old-are-other-gates', [i], z3.Implies(z3.And(i >= 0, i < ops.n), z3.And(ops.elem(i) != old, ops.elem(i) != new, S0.dom(ops.elem(i)))))
        lemma(ctx, 'old-registered-at-its-operands', [g], z3.Implies(z3.And(g != old, g != new), base.cnt(g, old) == S0.opc(old, g)))

    def install(self, it, env, k):
        ClosedLoop.install(self, it, env, k)
        # instances (at the current iteration) of the universal facts assumed in setup: pure instantiation hints
        ops, pc, S0, base, old, new = self.ops, self.pc, self.S0, self.base, self.old, self.new
        n = ops.n
        e = ops.elem(k)
        inr = z3.And(k >= 0, k < n)
        ctx = it.ctx
        ctx.assume(z3.Implies(inr, z3.And(pc(k + 1, e) == pc(k, e) + 1, pc(k + 1, e) <= ops.count(e), pc(k, e) >= 0)))
        ctx.assume(z3.Implies(inr, z3.And(e != old, e != new, S0.dom(e), base.cnt(e, old) == S0.opc(old, e), ops.count(e) == S0.opc(old, e))))

    def closed(self, k):
        base, old, new, pc = self.base, self.old, self.new, self.pc
        S = base.copy()
        S.cnt = lambda G, U: base.cnt(G, U) + z3.If(U == new, pc(k, G), 0) - z3.If(U == old, pc(k, G), 0)
        return S

    fields = [f for f in ALL]      # uelem of the touched lists is not tracked (count view only)


class RenameGate(CircuitContract):
    qualname = 'Circuit.rename_gate'
    name = 'rename_gate/arbitrary-circuit'

    def setup(self, it, ctx):
        c, h = self.circuit(it, ctx)
        S0 = h.S
        old, new = z3.Consts('old new', LabelSort)
        u, g = z3.Consts('u!w g!w', LabelSort)
        i, j = z3.Ints('i!w j!w')
        # representation facts of tuples/lists linking the count view and the positional view (lean/Background.lean):
        #  a label counted in an operand tuple occurs at some position; two positions holding the same label count >= 2
        w = z3.Function('opwit', LabelSort, LabelSort, I)
        ctx.assume(z3.ForAll([u, g], z3.Implies(S0.opc(u, g) > 0, z3.And(w(u, g) >= 0, w(u, g) < S0.nops(u), S0.op(u, w(u, g)) == g)), patterns=[S0.opc(u, g)]))
        ctx.assume(z3.ForAll([i, j], z3.Implies(z3.And(i >= 0, i < j, j < S0.in_n, S0.in_elem(i) == S0.in_elem(j)), S0.in_cnt(S0.in_elem(i)) >= 2)))
        it.loop_specs[(KEY, 1)] = OutputsLoop(h)
        it.loop_specs[(KEY, 2)] = UsersOfOldLoop(h)
        it.loop_specs[(KEY, 3)] = OperandsOfOldLoop(h)
        it.loop_specs[(KEY, 3)].S0 = S0
        return [c, Sym(old), Sym(new)], {}, {'h': h, 'S0': S0, 'old': old, 'new': new, 'c': c}

    def post(self, it, ctx, result, st):
        h, S0, old, new = st['h'], st['S0'], st['old'], st['new']
        rho = lambda l: z3.If(l == old, new, l)
        rank = lambda l: z3.If(l == new, S0.rank(old), S0.rank(l))
        yield from self.wf_post(it, ctx, h, rank=rank)
        S1 = h.S
        yield ('returns-self', z3.BoolVal(result is st['c']))
        yield ('pre/old-present-new-absent', z3.And(S0.dom(old), z3.Not(S0.dom(new))))
        l, x = ctx.fresh(LabelSort, 'lr'), ctx.fresh(LabelSort, 'xr')
        j = ctx.fresh(I, 'jr')
        yield ('gates/domain-is-image', S1.dom(l) == z3.Or(l == new, z3.And(S0.dom(l), l != old)))
        yield ('gates/type-arity-follow', z3.Implies(S0.dom(l), z3.And(S1.typ(rho(l)) == S0.typ(l), S1.nops(rho(l)) == S0.nops(l))))
        yield ('gates/operands-follow', z3.Implies(z3.And(S0.dom(l), j >= 0, j < S0.nops(l)), S1.op(rho(l), j) == rho(S0.op(l, j))))
        yield ('gates/operand-counts-follow', z3.Implies(z3.And(S0.dom(l), S0.dom(x)), S1.opc(rho(l), rho(x)) == S0.opc(l, x)))
        yield ('gates/size', S1.size == S0.size)
        yield ('users/follow', z3.Implies(z3.And(S0.dom(l), S0.dom(x)), S1.cnt(rho(l), rho(x)) == S0.cnt(l, x)))
        yield ('users/old-key-gone', z3.And(z3.Not(S1.udom(old)), S1.cnt(l, old) == 0))
        yield ('inputs/follow', z3.And(S1.in_n == S0.in_n, z3.Implies(z3.And(j >= 0, j < S0.in_n), S1.in_elem(j) == rho(S0.in_elem(j))),
                                       z3.Implies(S0.dom(l), S1.in_cnt(rho(l)) == S0.in_cnt(l))))
        yield ('outputs/follow', z3.And(S1.out_n == S0.out_n, z3.Implies(z3.And(j >= 0, j < S0.out_n), S1.out_elem(j) == rho(S0.out_elem(j))),
                                        z3.Implies(S0.dom(l), S1.out_cnt(rho(l)) == S0.out_cnt(l)), S1.out_cnt(old) == 0))
        yield ('blocks/follow', z3.And(S1.b_member == S0.b_member,
                                       z3.Implies(z3.And(S0.b_member, S0.dom(l)), z3.And(S1.bg(rho(l)) == S0.bg(l), S1.bi(rho(l)) == S0.bi(l), S1.bo(rho(l)) == S0.bo(l))),
                                       z3.Implies(S0.b_member, z3.And(S1.bg(old) == 0, S1.bi(old) == 0, S1.bo(old) == 0))))

    def on_raise(self, it, ctx, exc, st):
        n = self.exc_name(exc)
        S0, old, new = st['S0'], st['old'], st['new']
        if n == 'CircuitGateIsAbsentError':
            yield ('raise/old-absent', z3.Not(S0.dom(old)), {'raised': n})
            yield ('raise/state-untouched', state_eq(ctx, st['h'].S, S0, ALL))
        elif n == 'CircuitGateAlreadyExistsError':
            yield ('raise/new-present', z3.And(S0.dom(old), S0.dom(new)), {'raised': n})
            yield ('raise/state-untouched', state_eq(ctx, st['h'].S, S0, ALL))
        else:
            yield ('no-other-raise', z3.BoolVal(False), {'raised': n, 'witness': 'raises-' + n})


class BlockRename(CircuitContract):
    """Block._rename_gate on lists of concrete length (<= 2 inputs, <= 3 gates, <= 2 outputs) of arbitrary labels:
    position-wise substitution old -> new in all three lists, nothing else. (The call site in rename_gate uses the
    corresponding count-level summary for lists of arbitrary length; lengths beyond the bound are not proved.)"""
    qualname = 'Block._rename_gate'
    wf_pre = False

    def __init__(self, ki, kg, ko):
        self.k = (ki, kg, ko)
        self.name = f'Block._rename_gate/{ki}in+{kg}gates+{ko}out'

    def setup(self, it, ctx):
        m = it.load_module('cirbo.core.circuit.circuit')
        old, new = z3.Consts('old new', LabelSort)
        lists = [[z3.Const(f'{w}{i}', LabelSort) for i in range(k)] for w, k in zip(('bi', 'bg', 'bo'), self.k)]
        vl = [VList([Sym(x) for x in l]) for l in lists]
        b = Obj(m.env['Block'], {'_name': Sym(z3.Const('bname', LabelSort)), '_owner': None, '_inputs': vl[0], '_gates': vl[1], '_outputs': vl[2]})
        return [b, Sym(old), Sym(new)], {}, {'b': b, 'lists': lists, 'vl': vl, 'old': old, 'new': new}

    def post(self, it, ctx, result, st):
        old, new = st['old'], st['new']
        yield ('returns-self', z3.BoolVal(result is st['b']))
        for w, l0, v in zip(('inputs', 'gates', 'outputs'), st['lists'], st['vl']):
            same_list = st['b'].fields['_' + w] is v and len(v.items) == len(l0)
            yield (w + '/same-list-same-length', z3.BoolVal(same_list))
            if same_list:
                for i, (x0, x1) in enumerate(zip(l0, v.items)):
                    yield (f'{w}[{i}]/substituted', it.label_term(x1) == z3.If(x0 == old, new, x0))

    def on_raise(self, it, ctx, exc, st):
        yield ('no-raise', z3.BoolVal(False), {'raised': self.exc_name(exc), 'witness': 'raises'})

"""C13  build_miter on two ONE-GATE circuits with SYMBOLIC gate types: left = t1(x0, x1), right = t2(y0, y1) (outputs [g] or [g, second
input]).  The sixteen binary gate types are the sixteen functions of two inputs, so one symbolic execution of the REAL build_miter
(add_circuit, two connect_circuit calls with named blocks, generate_pairwise_xor, the final OR / IFF) followed by the real
evaluate covers all 256 pairs of two-input functions: the miter has the inputs of the left circuit in order, exactly one output,
and evaluates to True exactly on the assignments where the output vectors differ; both operands are left untouched.
A width instance like the arithmetic proofs; arbitrary circuits stay with the bounded stand-in."""
import z3

from ..pyvc.values import Sym, VList, Obj, GT, GTypeSort, ST_T, ST_F, Unsupported
from ..pyvc.prove import Contract
from ..pyvc import theory
from .c12_queries import BINARY_TYPES, bits

MITER = 'cirbo/sat/miter.py'


def op_of(ty, a, b):
    v = z3.BoolVal(False)
    for t in BINARY_TYPES:
        v = z3.If(ty == GT[t], theory.OPz(t, [z3.BoolVal(a), z3.BoolVal(b)]), v)
    return v


class SmallMiter(Contract):
    relpath, qualname = MITER, 'build_miter'

    def __init__(self, m, same_labels_permuted=False):
        self.m, self.perm = m, same_labels_permuted
        self.name = f'build_miter/one-gate-circuits/{m}outputs' + ('/right-circuit-uses-the-same-input-labels-in-the-other-order' if same_labels_permuted else '')

    # output lists of the two circuits, per variant: 'g' = the gate, 'i' = the second input
    SHAPES = {1: (['g'], ['g']), 2: (['g', 'i'], ['g', 'i']), 3: (['g', 'g'], ['g', 'i']),         # 3: a REPEATED left output against two different right outputs
              6: (['g', 'i', 'i', 'i', 'i', 'i'], ['i', 'i', 'i', 'i', 'i', 'g']),                # six and seven output pairs: the OR over the pairwise xors is a tree
              7: (['i', 'i', 'i', 'g', 'i', 'i', 'i'], ['i', 'i', 'i', 'i', 'i', 'i', 'g'])}

    def circuit(self, it, ty, names, outs):
        cm = it.load_module('cirbo.core.circuit.circuit')
        c = it.call(cm.env['Circuit'], [], {})
        it.call(it.getattr(c, 'add_inputs'), [VList(list(names[:2]))], {})
        it.call(it.getattr(c, 'emplace_gate'), [names[2], Sym(ty), (names[0], names[1])], {})
        it.call(it.getattr(c, 'set_outputs'), [VList([names[2] if o == 'g' else names[1] for o in outs])], {})
        return c

    def snap(self, it, c):
        f = c.fields
        return (tuple(it.iterate(f['_inputs'])), tuple(it.iterate(f['_outputs'])), tuple(f['_gates'].d.keys()), tuple((k, tuple(v.items)) for k, v in f['_gate_to_users'].d.items()),
                tuple(f['_blocks'].d.keys()))

    def setup(self, it, ctx):
        t1, t2 = z3.Consts('t1 t2', GTypeSort)
        for t in (t1, t2):
            ctx.assume(z3.Or([t == GT[x] for x in BINARY_TYPES]))
        lo, ro = self.SHAPES[self.m]
        left = self.circuit(it, t1, ('x0', 'x1', 'g'), lo)
        # (variant: the right circuit declares the inputs x1, x0 - the labels of the left one in the other order; inputs are paired by
        #  POSITION, not by label)
        right = self.circuit(it, t2, ('x1', 'x0', 'h') if self.perm else ('y0', 'y1', 'h'), ro)
        return [left, right], {}, {'t1': t1, 't2': t2, 'left': left, 'right': right, 'sl': self.snap(it, left), 'sr': self.snap(it, right)}

    def post(self, it, ctx, result, st):
        t1, t2, m = st['t1'], st['t2'], self.m
        yield ('operands-untouched', z3.BoolVal(self.snap(it, st['left']) == st['sl'] and self.snap(it, st['right']) == st['sr']))
        ins = list(it.iterate(it.getattr(result, 'inputs')))
        outs = list(it.iterate(it.getattr(result, 'outputs')))
        yield ('two-inputs-one-output', z3.BoolVal(len(ins) == 2 and len(outs) == 1))
        if len(ins) != 2 or len(outs) != 1:
            return
        for j in range(4):
            a, b = bits(j, 2)
            r = it.call(it.getattr(result, 'evaluate'), [VList([a, b])], {})
            vals = list(it.iterate(r))
            if len(vals) != 1:
                yield (f'evaluate-{j}/one-value', z3.BoolVal(False))
                continue
            lo, ro = self.SHAPES[m]
            lv = lambda o: op_of(t1, a, b) if o == 'g' else z3.BoolVal(b)        # noqa: E731
            rv = lambda o: op_of(t2, a, b) if o == 'g' else z3.BoolVal(b)        # noqa: E731
            differ = z3.Or([lv(x) != rv(y) for x, y in zip(lo, ro)])
            v = vals[0]
            if isinstance(v, Sym) and v.is_state():
                got = v.t == z3.If(differ, ST_T, ST_F)
            elif isinstance(v, Sym):
                got = v.t == differ
            elif isinstance(v, bool):
                got = z3.BoolVal(v) == differ
            else:
                raise Unsupported('value of the miter output: %r' % (v,))
            yield (f'true-exactly-where-the-outputs-differ/x0={int(a)},x1={int(b)}', got, {'witness': 'miter-value'})

    def on_raise(self, it, ctx, exc, st):
        n = exc.cls.name if isinstance(exc, Obj) else repr(exc)
        yield ('no-raise-for-equal-shapes', z3.BoolVal(False), {'raised': n, 'witness': 'raises-' + n})

"""C01  Evaluation equals the denotational semantics of the gate network.

P: operators.py (18 functions, n-ary by fold induction), gate.py constants, the foreign gate tables
   (circuit_search.Operation/_tt_to_gate_type/Basis, _utils.binary_tt_to_type, bench names,
   _PatternOperations), evaluate_full_circuit / evaluate_circuit (loop invariants, see c01_eval).
B: every evaluation entry point against the spec evaluator on enumerated circuits (bounded)."""
import itertools
import random
import z3

from .. import env
from ..pyvc.values import Sym, StateSort, ST_T, ST_F, ST_U, Obj, VList, EnumMember, VDict, Unsupported
from ..pyvc.interp import StarTail
from ..pyvc.models import SymSeq
from ..pyvc.prove import Prover, Contract
from ..pyvc import theory
from ..spec import ops as S
from ..spec import net as N
from ..spec import gen as G
from .common import new_interp, finish_refuted, canary, STD_TRUSTED, STD_ASSUME, real

LEVEL = 'proof'
OPS = 'cirbo/core/circuit/operators.py'
FN_OF_TYPE = {'ALWAYS_TRUE': 'always_true_', 'ALWAYS_FALSE': 'always_false_', 'AND': 'and_', 'GEQ': 'geq_', 'GT': 'gt_',
              'IFF': 'iff_', 'LEQ': 'leq_', 'LIFF': 'liff_', 'LNOT': 'lnot_', 'LT': 'lt_', 'NAND': 'nand_', 'NOR': 'nor_',
              'NOT': 'not_', 'NXOR': 'nxor_', 'OR': 'or_', 'RIFF': 'riff_', 'RNOT': 'rnot_', 'XOR': 'xor_'}


def fixed_arities(t):
    if t in S.NARY:
        return [2, 3]
    if t in S.BINARY:
        return [2]
    if t in S.UNARY:
        return [1]
    return [0, 2]


class OperatorBool(Contract):
    """f(b1..bk) on Boolean arguments returns OP(t)(b1..bk)   [fixed arity k]"""

    def __init__(self, tname, arity, getter=None, relpath=OPS, qualname=None, label=None):
        self.t = tname
        self.arity = arity
        self.relpath = relpath
        self.qualname = qualname or FN_OF_TYPE[tname]
        self.name = label or f'{self.qualname}/bool{arity}'
        self.getter = getter

    def setup(self, it, ctx):
        bs = [z3.Bool(f'b{i}') for i in range(self.arity)]
        return [Sym(b) for b in bs], {}, {'bs': bs}

    def execute(self, it, fv, args, kwargs):
        if self.getter is not None:
            return it.call(self.getter(it), args, kwargs)
        return it.call_function(fv, args, kwargs, force_inline=True)

    def post(self, it, ctx, result, st):
        yield ('denotes-OP', it.state_term(result) == theory.state_of_bool(theory.OPz(self.t, st['bs'])))

    def inputs(self, st):
        return {'args': st['bs']}

    def replay(self, values):
        ops = real('cirbo.core.circuit.operators')
        got = getattr(ops, FN_OF_TYPE[self.t])(*values['args'])
        want = S.OP(self.t, values['args'])
        return (got is want or got == want and not isinstance(got, ops._Undefined.__class__), f'{FN_OF_TYPE[self.t]}{tuple(values["args"])} = {got!r}, OP = {want!r}')


class OperatorFold(Contract):
    """n-ary f(a, b, *rest) on Boolean arguments is the fold of the binary step, for every len(rest) >= 0"""

    def __init__(self, tname, getter=None, relpath=OPS, qualname=None, label=None):
        self.t = tname
        self.relpath = relpath
        self.qualname = qualname or FN_OF_TYPE[tname]
        self.name = label or f'{self.qualname}/fold-all-arities'
        self.getter = getter

    def setup(self, it, ctx):
        a, b = z3.Bool('a'), z3.Bool('b')
        n = z3.Int('n')
        ctx.assume(n >= 0)
        val = z3.Function('restval', z3.IntSort(), z3.BoolSort())
        FB = z3.Function('FB', z3.IntSort(), z3.BoolSort())
        stepf, neg = theory.step(self.t)
        i = z3.Int('i')
        ctx.assume(FB(0) == stepf(a, b))
        ctx.assume(z3.ForAll([i], z3.Implies(z3.And(i >= 0, i < n), FB(i + 1) == stepf(FB(i), val(i))), patterns=[FB(i + 1)]))
        seq = SymSeq([], n, lambda k: Sym(val(k)))
        seq.fold_inv = lambda it_, acc, k: [('acc-is-fold', it_.state_term(acc) == theory.state_of_bool(FB(k)))]
        seq.fold_havoc = lambda it_: Sym(it_.ctx.fresh(StateSort, 'acc'))
        return [Sym(a), Sym(b), StarTail(seq)], {}, {'FB': FB, 'n': n, 'neg': neg, 'a': a, 'b': b}

    def execute(self, it, fv, args, kwargs):
        if self.getter is not None:
            return it.call(self.getter(it), args, kwargs)
        return it.call_function(fv, args, kwargs, force_inline=True)

    def post(self, it, ctx, result, st):
        f = st['FB'](st['n'])
        yield ('denotes-fold', it.state_term(result) == theory.state_of_bool(z3.Not(f) if st['neg'] else f))


def gate_operator_getter(tname):
    def g(it):
        gate = it.load_module('cirbo.core.circuit.gate')
        return it.getattr(gate.env[tname], 'operator')
    return g


def table_obligations(rep, pv, it):
    """Foreign gate tables: every entry denotes OP of the gate type it names."""
    p, q = z3.Bool('p'), z3.Bool('q')

    def bit_of(s):          # s: 4-char string or 4-tuple indexed by 2p+q
        vals = [bool(int(x)) for x in s]
        return z3.If(p, z3.If(q, vals[3], vals[2]), z3.If(q, vals[1], vals[0]))

    def tname(gt):
        return gt.fields['_name']

    # synthesis/circuit_search.py
    cs = it.load_module('cirbo.synthesis.circuit_search')
    opn = cs.env['Operation']
    for nm, mem in opn.members.items():
        t = {v: k for k, v in FN_OF_TYPE.items()}.get(nm)
        if t is None:
            rep.error(f'Operation.{nm} does not name an operator')
            continue
        pv.add_raw(f'C01/circuit_search.Operation/{nm}/denotes-OP', 'circuit_search.Operation', [], bit_of(mem.value) == theory.OPz(t, [p, q]),
                   meta={'witness': 'table-entry'})
    tt = cs.env['_tt_to_gate_type']
    if len(tt.d) != 16:
        rep.error('_tt_to_gate_type does not have 16 entries')
    for key, gt in tt.d.items():
        pv.add_raw(f'C01/circuit_search._tt_to_gate_type/{"".join(map(str, key))}/denotes-OP', 'circuit_search._tt_to_gate_type', [],
                   bit_of(key) == theory.OPz(tname(gt), [p, q]), meta={'witness': 'table-entry'})
    ops_ok = z3.BoolVal(True)
    for b in cs.env['Basis'].members.values():
        for o in b.value.items:
            if not (isinstance(o, EnumMember) and o.cls is opn):
                ops_ok = z3.BoolVal(False)
    pv.add_raw('C01/circuit_search.Basis/members-are-operations', 'circuit_search.Basis', [], ops_ok)
    # arithmetics/_utils.py
    ut = it.load_module('cirbo.synthesis.generation.arithmetics._utils')
    b2t = ut.env['binary_tt_to_type']
    if len(b2t.d) != 16:
        rep.error('binary_tt_to_type does not have 16 entries')
    for key, gt in b2t.d.items():
        pv.add_raw(f'C01/_utils.binary_tt_to_type/{key}/denotes-OP', '_utils.binary_tt_to_type', [],
                   bit_of(key) == theory.OPz(tname(gt), [p, q]), meta={'witness': 'table-entry'})
    # gate.py: is_symmetric flag must be true iff OP is permutation invariant
    gm = it.load_module('cirbo.core.circuit.gate')
    for t in S.GATE_TYPES:
        g = gm.env[t]
        pv.add_raw(f'C01/gate.py/{t}/is_symmetric', 'gate.GateType', [], z3.BoolVal(bool(g.fields['_is_symmetric']) == S.SYMMETRIC[t]),
                   meta={'witness': 'flag'})
        pv.add_raw(f'C01/gate.py/{t}/name', 'gate.GateType', [], z3.BoolVal(g.fields['_name'] == t))


# ------------------------------------------------------------------ bounded layer ----------
def bounded_entry_points(rep, quick):
    from cirbo.core.circuit import Circuit, gate
    from cirbo.core.circuit.operators import Undefined
    name = 'entry-points-vs-spec-evaluator'
    d = rep.bounded_driver(name, 'every evaluation entry point of the real Circuit vs. den() of vlib/spec on (a) all circuits with <=2 inputs '
                           'and <=2 gates over all 18 gate types with arities 2..3 and repeated operands, (b) seeded random circuits (<=4 inputs, <=7 gates, '
                           'arity<=4, dead gates, duplicated outputs, outputs that are inputs, permuted storage); non-trivial = distinct netlist with >=1 non-input gate',
                           'K<=2 exhaustive; random K<=7', exhaustive=False)
    rng = G.rng_for(env.SEED, 'C01')

    def check(net, c=None):
        c = N.build(net) if c is None else c
        n = len(net.inputs)
        want_tt = N.tt(net)
        gtt = N.gates_tt(net)
        bad = None
        try:
            if c.get_truth_table() != want_tt and len(net.outputs) > 0:
                bad = ('get_truth_table', c.get_truth_table(), want_tt)
            real_gtt = c.get_gates_truth_table()
            for g in net.gates:
                if n >= 0 and list(real_gtt[g]) != gtt[g]:
                    bad = bad or ('get_gates_truth_table', g, list(real_gtt[g]), gtt[g])
            for j, x in enumerate(N.assignments(n)):
                a = dict(zip(net.inputs, x))
                v = N.den_all(net, a)
                full = c.evaluate_full_circuit(dict(a))
                for g in net.gates:
                    if full[g] is not v[g]:
                        bad = bad or ('evaluate_full_circuit', g, x, full[g], v[g])
                outs = c.evaluate_circuit_outputs(dict(a))
                for o in net.outputs:
                    if outs[o] is not v[o]:
                        bad = bad or ('evaluate_circuit_outputs', o, x, outs[o], v[o])
                if net.outputs:
                    ev = c.evaluate(list(x))
                    if ev != [v[o] for o in net.outputs]:
                        bad = bad or ('evaluate', x, ev)
                    for i, o in enumerate(net.outputs):
                        if c.evaluate_at(list(x), i) is not v[o]:
                            bad = bad or ('evaluate_at', i, x)
                a2 = dict(a)
                a2['__extra_key__'] = True
                one = c.evaluate_circuit(a2, outputs=list(net.gates)[:2])
                for g in list(net.gates)[:2]:
                    if one[g] is not v[g]:
                        bad = bad or ('evaluate_circuit(outputs=…)', g, x, one[g], v[g])
        except Exception as e:
            bad = ('exception', type(e).__name__, str(e)[:200])
        return bad

    def record(net, bad):
        nontriv = any(t != 'INPUT' for t, _ in net.gates.values())
        rep.bounded_case(name, key=net.key(), nontrivial=nontriv, sample={'netlist': net.to_json()} if nontriv else None)
        if bad:
            wide = any(len(o) > 2 for _, o in net.gates.values())
            rep.violation('C01/entry-points/agree-with-den', 'nary>2' if wide else 'any', f'{bad}', {'kind': 'bounded', 'netlist': net.to_json(), 'observed': repr(bad)})

    for n_in in (0, 1, 2):
        for k in (0, 1) if quick else (0, 1, 2):
            if n_in == 0 and k > 0:
                alphabet = list(S.CONST)
            else:
                alphabet = G.ALL_TYPES
            for net in G.enum_nets(n_in, k, alphabet):
                if any(not S.arity_ok(t, len(o)) for t, o in net.gates.values()):
                    continue
                record(net, check(net))
    for i in range(150 if quick else 3000):
        net = G.random_net(rng)
        if N.arity(net):
            continue
        record(net, check(net))
    # the entry points must keep agreeing with den after the SAME object was queried and then mutated
    # (results must not be remembered across mutations): query, mutate through a public mutator, query again
    from cirbo.core.circuit import gate as _gate
    muts = ['replace_inputs_true', 'replace_inputs_false', 'rename', 'reverse_outputs', 'add_gate', 'into_bench', 'mark_output']
    for i in range(120 if quick else 1500):
        net = G.random_net(rng, n_inputs=rng.randint(1, 3), k_gates=rng.randint(1, 5), permute_storage=False)
        if N.arity(net) or not net.outputs:
            continue
        c = N.build(net)
        bad0 = check(net, c)
        if bad0:
            continue
        m = rng.choice(muts)
        try:
            if m == 'replace_inputs_true':
                c.replace_inputs([net.inputs[0]], [])
            elif m == 'replace_inputs_false':
                c.replace_inputs([], [net.inputs[-1]])
            elif m == 'rename':
                c.rename_gate(rng.choice(list(net.gates)), 'renamed_gate')
            elif m == 'reverse_outputs':
                c.set_outputs(list(reversed(net.outputs)) + [net.outputs[0]])
            elif m == 'add_gate':
                nodes = list(net.gates)
                c.emplace_gate('added_gate', _gate.XOR, (rng.choice(nodes), rng.choice(nodes)))
                c.mark_as_output('added_gate')
            elif m == 'into_bench':
                c.into_bench()
            else:
                c.mark_as_output(rng.choice(list(net.gates)))
        except Exception:
            continue
        net2 = N.snapshot(c)
        if N.wf_violations(net2) or N.arity(net2):
            continue
        bad = check(net2, c)
        rep.bounded_case(name, key=('after', m) + net.key(), nontrivial=True, sample=None)
        if bad:
            rep.violation('C01/entry-points/agree-with-den', 'queried-then-mutated', f'after {m}: {bad}',
                          {'kind': 'bounded', 'netlist_before': net.to_json(), 'mutation': m, 'netlist_after': net2.to_json(), 'observed': repr(bad),
                           'how': 'build(netlist_before); call every evaluation entry point; apply the mutation; call them again'})


def run(rep):
    quick = env.TIER != 'thorough'
    rep.trusted_base = list(STD_TRUSTED)
    for a in STD_ASSUME:
        rep.assume(a)
    rep.extra['theory_selfcheck_cases'] = theory.selfcheck()
    it = new_interp()
    pv = Prover(rep, it, 'C01')
    from . import c01_extra, c01_eval
    c01_eval.add_c01(rep, pv, it)          # started first: their VCs are generated in child processes meanwhile
    # A. operators.py on Boolean arguments
    for t in S.GATE_TYPES:
        if t == 'INPUT':
            continue
        for ar in fixed_arities(t):
            pv.run_contract(OperatorBool(t, ar))
        if t in S.NARY:
            pv.run_contract(OperatorFold(t))
    # B. gate.py: GateType(t).operator denotes OP(t)
    for t in S.GATE_TYPES:
        if t == 'INPUT':
            continue
        for ar in fixed_arities(t)[:1]:
            pv.run_contract(OperatorBool(t, ar, getter=gate_operator_getter(t), relpath='cirbo/core/circuit/gate.py',
                                         qualname='GateType.operator', label=f'gate.{t}.operator/bool{ar}'))
        if t in S.NARY:
            pv.run_contract(OperatorFold(t, getter=gate_operator_getter(t), relpath='cirbo/core/circuit/gate.py',
                                         qualname='GateType.operator', label=f'gate.{t}.operator/fold-all-arities'))
    # C. foreign tables
    table_obligations(rep, pv, it)
    c01_extra.add(rep, pv, it)
    # canary: gt_ must not be provable equal to lt_
    p, q = z3.Bools('p q')
    canary(rep, pv, 'C01/canary/gt-is-lt', [], theory.OPz('GT', [p, q]) == theory.OPz('LT', [p, q]))
    refuted = pv.discharge(env.NPROC)
    finish_refuted(rep, pv, refuted)
    bounded_entry_points(rep, quick)
    rep.assume('evaluate_full_circuit uses the contract of top_sort(inverse=True) (each gate once, operands first), which is what C20 proves (order + completeness step + rule R2)')
    rep.assume('Circuit.evaluate and Circuit.evaluate_at are proved against the contract of evaluate_circuit (whose body is proved above) for every Boolean input vector of the right length; '
               'representation facts of the input list: an input sits at exactly one position (W4 + list lemmas); truth-table builders (2^n loops) are bounded-only')
    rep.assume('evaluate_circuit: partial correctness; dict iteration enumerates each key exactly once; W5 used in count form (view link)')
    rep.extra['explanation'] = ('Obligations are generated by symbolic execution of the current source of operators.py, gate.py and the '
                                'foreign table modules and discharged by z3/cvc5 for all Boolean arguments and (fold induction) all arities.')

"""C13  A miter is true exactly where the two circuits differ.

P: add_pairwise_xor (the comparison stage of the miter) on an arbitrary host circuit: pointwise XOR, fresh
   gates, WF, for n <= 3 pairs and arbitrary operand aliasing; build_miter rejects exactly the mismatched
   shapes with MiterDifferentShapesError before touching anything (prefix of the function up to the first
   composition call). The composition steps (add_circuit / connect_circuit) and the final OR are bounded-only.
B: vlib/bounded/C13.py (whole miters of enumerated pairs vs. the pointwise definition)."""
import z3

from .. import env
from ..pyvc.values import Sym, LabelSort, Obj
from ..pyvc.prove import Prover, Contract
from ..pyvc.models import PathEnd
from ..pyvc import circuit_model as CM
from .arith_common import HostGadget
from .C09 import spec_pxor
from .common import new_interp, finish_refuted, canary, STD_TRUSTED, STD_ASSUME, run_bounded

LEVEL = 'other'
GEN = 'cirbo/synthesis/generation/generation.py'
CIRC = 'cirbo/core/circuit/circuit.py'


class MiterShapes(Contract):
    relpath, qualname, name = 'cirbo/sat/miter.py', 'build_miter', 'build_miter/shape-check'

    def setup(self, it, ctx):
        l, hl = CM.make_circuit(it, ctx, tag='left')
        r, hr = CM.make_circuit(it, ctx, tag='right')
        st = {'hl': hl, 'hr': hr, 'L0': hl.S, 'R0': hr.S}

        def add_circuit(it_, fv, args, kwargs):
            # the verified prefix ends here: composition itself is bounded-only
            it_.ctx.check('composition-reached-only-with-equal-shapes', z3.And(hl.S.in_n == hr.S.in_n, hl.S.out_n == hr.S.out_n))
            from .C02 import state_eq, ALL
            it_.ctx.check('operands-untouched-so-far', z3.And(state_eq(it_.ctx, hl.S, st['L0'], ALL), state_eq(it_.ctx, hr.S, st['R0'], ALL)))
            raise PathEnd()
        it.contracts[CIRC + '::Circuit.add_circuit'] = add_circuit
        return [l, r], {}, st

    def on_raise(self, it, ctx, exc, st):
        n = exc.cls.name if isinstance(exc, Obj) else repr(exc)
        if n == 'MiterDifferentShapesError':
            yield ('raise/only-for-different-shapes', z3.Or(st['hl'].S.in_n != st['hr'].S.in_n, st['hl'].S.out_n != st['hr'].S.out_n), {'raised': n})
        else:
            yield ('no-other-raise', z3.BoolVal(False), {'raised': n, 'witness': 'raises-' + n})

    def post(self, it, ctx, result, st):
        yield ('unreachable-in-prefix', z3.BoolVal(False))


def run(rep):
    quick = env.TIER != 'thorough'
    rep.trusted_base = list(STD_TRUSTED) + ['abstract circuit model vlib/pyvc/circuit_model.py']
    for a in STD_ASSUME:
        rep.assume(a)
    rep.assume('the whole build_miter (composition by add_circuit / connect_circuit with named blocks, pairwise xor, final OR / IFF) is proved only for pairs of one-gate circuits with symbolic gate types (all pairs of two-input functions, five output shapes, two labelings); miters of arbitrary circuits are covered by the bounded stand-in only')
    it = new_interp()
    pv = Prover(rep, it, 'C13')
    for n in (1, 2, 3):
        it.contracts.clear()
        pv.run_contract(HostGadget(GEN, 'add_pairwise_xor', 2 * n, spec_pxor(n), label=f'add_pairwise_xor/n{n}', shape=(n, n)))
    it.contracts.clear()
    pv.run_contract(MiterShapes())
    it.contracts.clear()
    it.loop_specs.clear()
    from . import c13_small
    for m_ in (1, 2, 3, 6, 7):
        pv.run_contract(c13_small.SmallMiter(m_))
        pv.run_contract(c13_small.SmallMiter(m_, same_labels_permuted=True))
    a, b = z3.Bools('a b')
    canary(rep, pv, 'C13/canary/xor-is-or', [], z3.Xor(a, b) == z3.Or(a, b))
    refuted = pv.discharge(env.NPROC)
    finish_refuted(rep, pv, refuted)
    run_bounded(rep, 'C13', quick)
    rep.extra['explanation'] = 'pairwise-xor stage, shape rejection and the whole miter of one-gate circuits with symbolic gate types proved from the real source; miters of arbitrary circuits: bounded stand-in.'

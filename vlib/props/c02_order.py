"""utils.order_list and Circuit.order_inputs / order_outputs on lists of ARBITRARY length (requested prefix of k <= 3
labels): the result has the length and the count view of the old list, starts with the requested labels in order,
and every position holds a label of the old list; CircuitGateIsAbsentError exactly when some label is requested more
often than it occurs. This is the contract that callers (C07-C09 gadget wrappers) use for order_inputs/order_outputs
(circuit_model.install_order_contracts); here the bodies are verified against it.

Loop 2 of order_list (`for elem in old_list_copy: new_list.append(elem)`) by the closed form "new_list = requested
labels followed by the first j remaining elements" (TailList)."""
import z3

from ..pyvc.values import Sym, LabelSort, VList, Obj
from ..pyvc.prove import Contract
from ..pyvc import circuit_model as CM
from .C02 import CircuitContract, state_eq, ALL, GATES, USERS, BLK, CIRC

I = z3.IntSort()
UT = 'cirbo/core/circuit/utils.py'


class AppendRestLoop:
    """the destination list is identified by its ROLE - the list the one-statement body appends the loop variable to - not
    by the name of a local (seeded/harmless/k07 renames every local of order_list)"""
    dst = 'new_list'

    def applies(self, it, env, iterable):
        import ast
        self.src = iterable
        self.items = None
        st = getattr(self, 'stmt', None)
        if (st is not None and len(st.body) == 1 and isinstance(st.body[0], ast.Expr) and isinstance(st.body[0].value, ast.Call)
                and isinstance(st.body[0].value.func, ast.Attribute) and st.body[0].value.func.attr == 'append'
                and isinstance(st.body[0].value.func.value, ast.Name)):
            self.dst = st.body[0].value.func.value.id
        return isinstance(iterable, CM.MutLabelList)

    def _setup(self, it, env):
        if self.items is None:
            cur = env[self.dst]
            self.items = [it.label_term(x) for x in cur.items] if isinstance(cur, VList) else list(cur.items)

    def inv(self, it, env, k):
        self._setup(it, env)
        cur = env[self.dst]
        if isinstance(cur, VList):
            return [('nothing-appended-yet', z3.And(k == 0, z3.BoolVal(len(cur.items) == len(self.items))))]
        return [('appended-so-far', z3.And(cur.k == k, z3.BoolVal(cur.src is self.src)))]

    def install(self, it, env, k):
        self._setup(it, env)
        env[self.dst] = CM.TailList(self.items, self.src, k)


def result_views(it, r):
    if isinstance(r, VList):
        items = [it.label_term(x) for x in r.items]

        def elem(i):
            e = items[-1] if items else z3.Const('nolabel', LabelSort)
            for j in range(len(items) - 2, -1, -1):
                e = z3.If(i == j, items[j], e)
            return e
        return z3.IntVal(len(items)), elem, (lambda l: z3.Sum([z3.If(x == l, 1, 0) for x in items]) if items else z3.IntVal(0))
    return r.n, r.elem, r.count


def need(items, j):
    return z3.Sum([z3.If(y == items[j], 1, 0) for y in items[:j + 1]])


def order_clauses(ctx, items, n0, elem0, count0, n1, elem1, count1):
    l = ctx.fresh(LabelSort, 'lo')
    i = ctx.fresh(I, 'io')
    out = [('accepted-only-available-labels', z3.And([count0(items[j]) >= need(items, j) for j in range(len(items))]) if items else z3.BoolVal(True)),
           ('length-kept', n1 == n0),
           ('starts-with-the-request', z3.And([elem1(z3.IntVal(j)) == x for j, x in enumerate(items)]) if items else z3.BoolVal(True)),
           ('counts-kept', count1(l) == count0(l)),
           ('every-position-holds-a-label-of-the-old-list', z3.Implies(z3.And(i >= 0, i < n1), count0(elem1(i)) >= 1))]
    return out


def absent_condition(items, count0):
    return z3.Or([count0(items[j]) < need(items, j) for j in range(len(items))]) if items else z3.BoolVal(False)


class OrderList(Contract):
    relpath, qualname = UT, 'order_list'

    def __init__(self, k):
        self.k = k
        self.name = f'order_list/{k}requested'

    def setup(self, it, ctx):
        items = [z3.Const(f'req{i}', LabelSort) for i in range(self.k)]
        old = CM.AbsLabelSeq(ctx, tag='old')
        it.loop_specs[(UT + '::order_list', 2)] = AppendRestLoop()
        return [VList([Sym(x) for x in items]), old], {}, {'items': items, 'old': old}

    def post(self, it, ctx, result, st):
        old = st['old']
        n1, e1, c1 = result_views(it, result)
        yield from order_clauses(ctx, st['items'], old.n, old.elem, old.count, n1, e1, c1)

    def on_raise(self, it, ctx, exc, st):
        n = exc.cls.name if isinstance(exc, Obj) else repr(exc)
        if n == 'CircuitGateIsAbsentError':
            yield ('raise/some-label-requested-more-often-than-present', absent_condition(st['items'], st['old'].count), {'raised': n})
        else:
            yield ('no-other-raise', z3.BoolVal(False), {'raised': n, 'witness': 'raises-' + n})


class OrderInOut(CircuitContract):
    def __init__(self, which, k):
        self.which, self.k = which, k
        self.qualname = 'Circuit.order_' + ('inputs' if which == 'in' else 'outputs')
        self.name = f'order_{"inputs" if which == "in" else "outputs"}/{k}requested'

    def setup(self, it, ctx):
        c, h = self.circuit(it, ctx)
        items = [z3.Const(f'req{i}', LabelSort) for i in range(self.k)]
        it.loop_specs[(UT + '::order_list', 2)] = AppendRestLoop()
        return [c, VList([Sym(x) for x in items])], {}, {'h': h, 'S0': h.S, 'items': items, 'c': c}

    def post(self, it, ctx, result, st):
        h, S0, items, w = st['h'], st['S0'], st['items'], self.which
        yield from self.wf_post(it, ctx, h, rank=S0.rank)
        S1 = h.S
        g = lambda S, f: getattr(S, w + '_' + f)
        yield ('returns-self', z3.BoolVal(result is st['c']))
        yield from order_clauses(ctx, items, g(S0, 'n'), g(S0, 'elem'), g(S0, 'cnt'), g(S1, 'n'), g(S1, 'elem'), g(S1, 'cnt'))
        other = ['out_n', 'out_elem', 'out_cnt'] if w == 'in' else ['in_n', 'in_elem', 'in_cnt']
        yield ('frame', state_eq(ctx, S1, S0, GATES + USERS + other + BLK))

    def on_raise(self, it, ctx, exc, st):
        n = self.exc_name(exc)
        if n == 'CircuitGateIsAbsentError':
            yield ('raise/some-label-requested-more-often-than-present', absent_condition(st['items'], getattr(st['S0'], self.which + '_cnt')), {'raised': n})
            yield ('raise/state-untouched', state_eq(ctx, st['h'].S, st['S0'], ALL))
        else:
            yield ('no-other-raise', z3.BoolVal(False), {'raised': n, 'witness': 'raises-' + n})


# ---------------------------------------------------------------- set_inputs for a list of ANY length ----------
from ..pyvc.interp import Model, _simp
from ..pyvc.values import GT, Native, Unsupported
from .C02 import AllGatesLoop

_P = [0]


class PrefixList(Model):
    """a python list equal to the first k elements of src (an immutable abstract sequence); membership through the
    prefix count pc(k, x) = #{j < k : src[j] = x}; append(x) is only accepted for x = src[k]"""
    prefix = []
    is_label_list_view = True

    def __init__(self, src, pc, k):
        self.src, self.pc, self.k = src, pc, k

    @property
    def n(self):
        return self.k

    def elem(self, i):
        return self.src.elem(i)

    def count(self, l):
        return self.pc(self.k, l)

    def concrete_len(self, it=None):
        return None

    def m_len(self, it):
        return Sym(self.k)

    def m_contains(self, it, x):
        return _simp(self.pc(self.k, it.label_term(x)) > 0)

    def m_copy_list(self, it):
        return PrefixList(self.src, self.pc, self.k)

    def m_getattr(self, it, name):
        if name == 'append':
            def append(x):
                it.ctx.check('appended-element-is-the-next-of-the-source', it.label_term(x) == self.src.elem(self.k))
                self.k = self.k + 1
            return Native('list.append', append)
        raise Unsupported('prefix list: .' + name)


class PrefixCopyLoop:
    """for _input in inputs: if <not an INPUT gate> or _input in new_inputs: raise; new_inputs.append(_input)
    closed form: new_inputs = inputs[:k]; invariant: the first k labels are INPUT gates and pairwise distinct (prefix counts <= 1)"""

    def __init__(self, h):
        self.h = h
        self.pc = None

    def applies(self, it, env, iterable):
        self.src = iterable
        return (isinstance(iterable, (CM.AbsLabelSeq, CM.LabelList)) or getattr(iterable, 'is_label_list_view', False)) and iterable.concrete_len(it) is None

    def _setup(self, it, env):
        if self.pc is not None:
            return
        _P[0] += 1
        pc = z3.Function(f'pcin!{_P[0]}', I, LabelSort, I)
        self.pc = pc
        src, ctx = self.src, it.ctx
        k, x = z3.Int('k!pp'), z3.Const('x!pp', LabelSort)
        n = src.n
        ctx.assume(z3.ForAll([x], pc(0, x) == 0))
        ctx.assume(z3.ForAll([k, x], z3.Implies(z3.And(k >= 0, k < n), pc(k + 1, x) == pc(k, x) + z3.If(src.elem(k) == x, 1, 0)), patterns=[pc(k + 1, x)]))
        ctx.assume(z3.ForAll([x], pc(n, x) == src.count(x)))
        ctx.assume(z3.ForAll([k, x], z3.Implies(z3.And(k >= 0, k <= n), z3.And(pc(k, x) >= 0, pc(k, x) <= src.count(x))), patterns=[pc(k, x)]))

    def inv(self, it, env, k):
        self._setup(it, env)
        S0, src = self.h.S, self.src
        cur = env['new_inputs']
        j, x = it.ctx.fresh(I, 'jp'), it.ctx.fresh(LabelSort, 'xp')
        shape = z3.BoolVal(len(cur.items) == 0) & (k == 0) if isinstance(cur, VList) else z3.And(cur.k == k, z3.BoolVal(cur.src is src))
        return [('new-list-is-the-prefix', shape),
                ('prefix-labels-are-input-gates', z3.Implies(z3.And(j >= 0, j < k), z3.And(S0.dom(src.elem(j)), S0.typ(src.elem(j)) == GT['INPUT']))),
                ('prefix-labels-pairwise-distinct', self.pc(k, x) <= 1)]

    def inv_assume(self, it, env, k):
        self._setup(it, env)
        S0, src = self.h.S, self.src
        j, x = z3.Int('j!pp'), z3.Const('x!pq', LabelSort)
        return [('a', z3.ForAll([j], z3.Implies(z3.And(j >= 0, j < k), z3.And(S0.dom(src.elem(j)), S0.typ(src.elem(j)) == GT['INPUT'])))),
                ('b', z3.ForAll([x], self.pc(k, x) <= 1))]

    def havoc(self, it, env):
        self._setup(it, env)

    def install(self, it, env, k):
        self._setup(it, env)
        env['new_inputs'] = PrefixList(self.src, self.pc, k)
        for nm, f in self.inv_assume(it, env, k):
            it.ctx.assume(f)
        # instances of the prefix-count axioms at the current element (pure instantiation hints)
        src, pc = self.src, self.pc
        e = src.elem(k)
        it.ctx.assume(z3.Implies(z3.And(k >= 0, k < src.n), z3.And(pc(k + 1, e) == pc(k, e) + 1, pc(k + 1, e) <= src.count(e), pc(k, e) >= 0)))


class SetInputsAny(CircuitContract):
    """set_inputs(inputs) for a list of ANY length on an arbitrary WF circuit: accepted exactly when every label is an INPUT
    gate, no label is repeated and every INPUT gate is listed; then the input list is the argument, nothing else changes"""
    qualname = 'Circuit.set_inputs'
    name = 'set_inputs/any-length'

    def setup(self, it, ctx):
        c, h = self.circuit(it, ctx)
        seq = CM.AbsLabelSeq(ctx, tag='ins')
        # representation fact of lists (lean: count >= 2 gives two positions): used for the raise condition only
        it.loop_specs[(CIRC + '::Circuit.set_inputs', 1)] = AllGatesLoop(h, None, listed=lambda x: seq.count(x) > 0)
        it.loop_specs[(CIRC + '::Circuit.set_inputs', 2)] = PrefixCopyLoop(h)
        return [c, seq], {}, {'h': h, 'S0': h.S, 'seq': seq}

    def valid(self, S0, seq):
        l, i = z3.Const('l!sv', LabelSort), z3.Int('i!sv')
        return z3.And(z3.ForAll([i], z3.Implies(z3.And(i >= 0, i < seq.n), z3.And(S0.dom(seq.elem(i)), S0.typ(seq.elem(i)) == GT['INPUT']))),
                      z3.ForAll([l], seq.count(l) <= 1),
                      z3.ForAll([l], z3.Implies(z3.And(S0.dom(l), S0.typ(l) == GT['INPUT']), seq.count(l) > 0)))

    def post(self, it, ctx, result, st):
        h, S0, seq = st['h'], st['S0'], st['seq']
        yield from self.wf_post(it, ctx, h, rank=S0.rank)
        S1 = h.S
        i, l = ctx.fresh(I, 'is'), ctx.fresh(LabelSort, 'ls')
        yield ('accepted-only-valid-requests', self.valid(S0, seq))
        yield ('inputs-are-the-argument', z3.And(S1.in_n == seq.n, z3.Implies(z3.And(i >= 0, i < seq.n), S1.in_elem(i) == seq.elem(i)), S1.in_cnt(l) == seq.count(l)))
        yield ('frame', state_eq(ctx, S1, S0, GATES + USERS + ['out_n', 'out_elem', 'out_cnt'] + BLK))

    def on_raise(self, it, ctx, exc, st):
        n = self.exc_name(exc)
        if n == 'CircuitValidationError':
            yield ('raise/only-invalid-requests', z3.Not(self.valid(st['S0'], st['seq'])), {'raised': n})
            yield ('raise/state-untouched', state_eq(ctx, st['h'].S, st['S0'], ALL))
        else:
            yield ('no-raise', z3.BoolVal(False), {'raised': n, 'witness': 'raises-' + n})

"""utils.order_list and Circuit.order_inputs / order_outputs on lists of ARBITRARY length (requested prefix of k <= 3
labels): the result has the length and the count view of the old list, starts with the requested labels in order,
and every position holds a label of the old list; CircuitGateIsAbsentError exactly when some label is requested more
often than it occurs. This is the contract that callers (C07-C09 gadget wrappers) use for order_inputs/order_outputs
(circuit_model.install_order_contracts); here the bodies are verified against it.

Loop 2 of order_list (`for elem in old_list_copy: new_list.append(elem)`) by the closed form "new_list = requested
labels followed by the first j remaining elements" (TailList)."""
import z3

from ..pyvc.values import Sym, LabelSort, VList, Obj
from ..pyvc.prove import Contract
from ..pyvc import circuit_model as CM
from .C02 import CircuitContract, state_eq, ALL, GATES, USERS, BLK, CIRC

I = z3.IntSort()
UT = 'cirbo/core/circuit/utils.py'


class AppendRestLoop:
    def applies(self, it, env, iterable):
        self.src = iterable
        self.items = None
        return isinstance(iterable, CM.MutLabelList)

    def _setup(self, it, env):
        if self.items is None:
            cur = env['new_list']
            self.items = [it.label_term(x) for x in cur.items] if isinstance(cur, VList) else list(cur.items)

    def inv(self, it, env, k):
        self._setup(it, env)
        cur = env['new_list']
        if isinstance(cur, VList):
            return [('nothing-appended-yet', z3.And(k == 0, z3.BoolVal(len(cur.items) == len(self.items))))]
        return [('appended-so-far', z3.And(cur.k == k, z3.BoolVal(cur.src is self.src)))]

    def install(self, it, env, k):
        self._setup(it, env)
        env['new_list'] = CM.TailList(self.items, self.src, k)


def result_views(it, r):
    if isinstance(r, VList):
        items = [it.label_term(x) for x in r.items]

        def elem(i):
            e = items[-1] if items else z3.Const('nolabel', LabelSort)
            for j in range(len(items) - 2, -1, -1):
                e = z3.If(i == j, items[j], e)
            return e
        return z3.IntVal(len(items)), elem, (lambda l: z3.Sum([z3.If(x == l, 1, 0) for x in items]) if items else z3.IntVal(0))
    return r.n, r.elem, r.count


def need(items, j):
    return z3.Sum([z3.If(y == items[j], 1, 0) for y in items[:j + 1]])


def order_clauses(ctx, items, n0, elem0, count0, n1, elem1, count1):
    l = ctx.fresh(LabelSort, 'lo')
    i = ctx.fresh(I, 'io')
    out = [('accepted-only-available-labels', z3.And([count0(items[j]) >= need(items, j) for j in range(len(items))]) if items else z3.BoolVal(True)),
           ('length-kept', n1 == n0),
           ('starts-with-the-request', z3.And([elem1(z3.IntVal(j)) == x for j, x in enumerate(items)]) if items else z3.BoolVal(True)),
           ('counts-kept', count1(l) == count0(l)),
           ('every-position-holds-a-label-of-the-old-list', z3.Implies(z3.And(i >= 0, i < n1), count0(elem1(i)) >= 1))]
    return out


def absent_condition(items, count0):
    return z3.Or([count0(items[j]) < need(items, j) for j in range(len(items))]) if items else z3.BoolVal(False)


class OrderList(Contract):
    relpath, qualname = UT, 'order_list'

    def __init__(self, k):
        self.k = k
        self.name = f'order_list/{k}requested'

    def setup(self, it, ctx):
        items = [z3.Const(f'req{i}', LabelSort) for i in range(self.k)]
        old = CM.AbsLabelSeq(ctx, tag='old')
        it.loop_specs[(UT + '::order_list', 2)] = AppendRestLoop()
        return [VList([Sym(x) for x in items]), old], {}, {'items': items, 'old': old}

    def post(self, it, ctx, result, st):
        old = st['old']
        n1, e1, c1 = result_views(it, result)
        yield from order_clauses(ctx, st['items'], old.n, old.elem, old.count, n1, e1, c1)

    def on_raise(self, it, ctx, exc, st):
        n = exc.cls.name if isinstance(exc, Obj) else repr(exc)
        if n == 'CircuitGateIsAbsentError':
            yield ('raise/some-label-requested-more-often-than-present', absent_condition(st['items'], st['old'].count), {'raised': n})
        else:
            yield ('no-other-raise', z3.BoolVal(False), {'raised': n, 'witness': 'raises-' + n})


class OrderInOut(CircuitContract):
    def __init__(self, which, k):
        self.which, self.k = which, k
        self.qualname = 'Circuit.order_' + ('inputs' if which == 'in' else 'outputs')
        self.name = f'order_{"inputs" if which == "in" else "outputs"}/{k}requested'

    def setup(self, it, ctx):
        c, h = self.circuit(it, ctx)
        items = [z3.Const(f'req{i}', LabelSort) for i in range(self.k)]
        it.loop_specs[(UT + '::order_list', 2)] = AppendRestLoop()
        return [c, VList([Sym(x) for x in items])], {}, {'h': h, 'S0': h.S, 'items': items, 'c': c}

    def post(self, it, ctx, result, st):
        h, S0, items, w = st['h'], st['S0'], st['items'], self.which
        yield from self.wf_post(it, ctx, h, rank=S0.rank)
        S1 = h.S
        g = lambda S, f: getattr(S, w + '_' + f)
        yield ('returns-self', z3.BoolVal(result is st['c']))
        yield from order_clauses(ctx, items, g(S0, 'n'), g(S0, 'elem'), g(S0, 'cnt'), g(S1, 'n'), g(S1, 'elem'), g(S1, 'cnt'))
        other = ['out_n', 'out_elem', 'out_cnt'] if w == 'in' else ['in_n', 'in_elem', 'in_cnt']
        yield ('frame', state_eq(ctx, S1, S0, GATES + USERS + other + BLK))

    def on_raise(self, it, ctx, exc, st):
        n = self.exc_name(exc)
        if n == 'CircuitGateIsAbsentError':
            yield ('raise/some-label-requested-more-often-than-present', absent_condition(st['items'], getattr(st['S0'], self.which + '_cnt')), {'raised': n})
            yield ('raise/state-untouched', state_eq(ctx, st['h'].S, st['S0'], ALL))
        else:
            yield ('no-other-raise', z3.BoolVal(False), {'raised': n, 'witness': 'raises-' + n})
